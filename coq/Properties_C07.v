(* Properties_C07.v -- C07: overlap detection; memmove exactness
   Only theorem statements, each closed by [exact <lemma>], with Print Assumptions beneath. *)
From Coq Require Import List ZArith Lia Bool.
From SC Require Import Base Wp Cfg Comb CombProofs CopySpec ModStr ModMem ModExt ProofsStr ProofsMem SpecStr SpecMem SpecExt PropStr FnProps PropDefs.
From SC.Gen Require Import Consts.
Import ListNotations.
Local Open Scope Z_scope.

(* link from the wp statements below to executions: for every allocation-failure oracle,
   the result and final memory of [run] satisfy the postcondition *)
Theorem C07_wp_sound : forall (A : Type) (fail : nat -> bool) (p : prog A) st Q,
  wp p (wm st) Q -> let '(a, st') := run fail p st in Q a (wm st').
Proof. exact (@wp_run). Qed.
Print Assumptions C07_wp_sound.

(* ---- copy / concatenate family (generated from the table in harness/gen_fnprops.py) ---- *)
Theorem C07_strcpy_s : forall (c : cfg) (d dmax s destbos : Z) (m : mem) (L : Z), pre_strcpy_s c d dmax s destbos m L ->
  wp (strcpy_s c d dmax s destbos) m (fun r m' => let g := (Z.abs (s - d)) in (g <= L -> g < dmax -> r = ESOVRLP /\ cleared c 1 m' d dmax) /\ (L < g -> L < dmax -> r = EOK /\ exact_result 1 m m' d dmax s 0 L) /\ (dmax <= L -> dmax <= g -> r = ESNOSPC /\ cleared c 1 m' d dmax)).
Proof. exact strcpy_s_C07. Qed.
Print Assumptions C07_strcpy_s.
Theorem C07_wcscpy_s : forall (c : cfg) (d dmax s destbos : Z) (m : mem) (L g : Z), pre_wcscpy_s c d dmax s destbos m L g ->
  wp (wcscpy_s c d dmax s destbos) m (fun r m' => let g := g in (g <= L -> g < dmax -> r = ESOVRLP /\ cleared c (wchar_w c) m' d dmax) /\ (L < g -> L < dmax -> r = EOK /\ exact_result (wchar_w c) m m' d dmax s 0 L) /\ (dmax <= L -> dmax <= g -> r = ESNOSPC /\ cleared c (wchar_w c) m' d dmax)).
Proof. exact wcscpy_s_C07. Qed.
Print Assumptions C07_wcscpy_s.
Theorem C07_strncpy_s : forall (c : cfg) (d dmax s slen destbos srcbos : Z) (m : mem) (t : Z), pre_strncpy_s c d dmax s slen destbos srcbos m t ->
  wp (strncpy_s c d dmax s slen destbos srcbos) m (fun r m' => let g := (Z.abs (s - d)) in (g <= t -> g < dmax -> r = ESOVRLP /\ cleared c 1 m' d dmax) /\ (t < g -> t < dmax -> r = EOK /\ exact_result 1 m m' d dmax s 0 t) /\ (dmax <= t -> dmax <= g -> r = ESNOSPC /\ cleared c 1 m' d dmax)).
Proof. exact strncpy_s_C07. Qed.
Print Assumptions C07_strncpy_s.
Theorem C07_strcat_s : forall (c : cfg) (d dmax s destbos : Z) (m : mem) (P L : Z), pre_strcat_s c d dmax s destbos m P L ->
  wp (strcat_s c d dmax s destbos) m (fun r m' => let g := (Z.abs (s - d)) in let cg := cat_gap d s g P in (cg <= L -> cg < dmax - P -> r = ESOVRLP /\ cleared c 1 m' d dmax) /\ (L < cg -> L < dmax - P -> r = EOK /\ exact_result 1 m m' d dmax s P L) /\ (dmax - P <= L -> dmax - P <= cg -> r = ESNOSPC /\ cleared c 1 m' d dmax)).
Proof. exact strcat_s_C07. Qed.
Print Assumptions C07_strcat_s.
Theorem C07_strncat_s : forall (c : cfg) (d dmax s slen destbos srcbos : Z) (m : mem) (P t : Z), pre_strncat_s c d dmax s slen destbos srcbos m P t ->
  wp (strncat_s c d dmax s slen destbos srcbos) m (fun r m' => let g := (Z.abs (s - d)) in let cg := cat_gap d s g P in (cg <= t -> cg < dmax - P -> r = ESOVRLP /\ cleared c 1 m' d dmax) /\ (t < cg -> t < dmax - P -> r = EOK /\ exact_result 1 m m' d dmax s P t) /\ (dmax - P <= t -> dmax - P <= cg -> r = ESNOSPC /\ cleared c 1 m' d dmax)).
Proof. exact strncat_s_C07. Qed.
Print Assumptions C07_strncat_s.

(* memory family, every placement: memmove = copy through a temporary; memcpy rejects exactly intersecting, non-identical operands *)
Theorem C07_memcpy_s : forall c d dmax s slen destbos srcbos m, d <> 0 -> s <> 0 -> 1 <= dmax -> 1 <= slen -> ((destbos = BOS_UNKNOWN /\ dmax <= rmax_mem c) \/ (destbos <> BOS_UNKNOWN /\ dmax <= destbos)) -> (srcbos = BOS_UNKNOWN \/ slen * 1 <= srcbos) -> wp (memcpy_s c d dmax s slen destbos srcbos) m (mem_copy_post c 1 true d (eff_dmax false dmax destbos) s slen m).
Proof. intros. exact (mem_copy_gen_spec c 1 (rmax_mem c) false true EOVERFLOW false d dmax s slen destbos srcbos m ltac:(lia) H H0 H1 H2 H3 H4). Qed.
Print Assumptions C07_memcpy_s.
Theorem C07_memmove_s : forall c d dmax s slen destbos srcbos m, d <> 0 -> s <> 0 -> 1 <= dmax -> 1 <= slen -> ((destbos = BOS_UNKNOWN /\ dmax <= rmax_mem c) \/ (destbos <> BOS_UNKNOWN /\ dmax <= destbos)) -> (srcbos = BOS_UNKNOWN \/ slen * 1 <= srcbos) -> wp (memmove_s c d dmax s slen destbos srcbos) m (mem_copy_post c 1 false d (eff_dmax false dmax destbos) s slen m).
Proof. intros. exact (mem_copy_gen_spec c 1 (rmax_mem c) false false EOVERFLOW false d dmax s slen destbos srcbos m ltac:(lia) H H0 H1 H2 H3 H4). Qed.
Print Assumptions C07_memmove_s.
Theorem C07_memcpy16_s : forall c d dmax s slen destbos srcbos m, d <> 0 -> s <> 0 -> 1 <= dmax -> 1 <= slen -> ((destbos = BOS_UNKNOWN /\ dmax <= rmax_mem c) \/ (destbos <> BOS_UNKNOWN /\ dmax <= destbos)) -> (srcbos = BOS_UNKNOWN \/ slen * 2 <= srcbos) -> wp (memcpy16_s c d dmax s slen destbos srcbos) m (mem_copy_post c 2 true d (eff_dmax true dmax destbos) s slen m).
Proof. intros. exact (mem_copy_gen_spec c 2 (rmax_mem c) true true ESLEMAX false d dmax s slen destbos srcbos m ltac:(lia) H H0 H1 H2 H3 H4). Qed.
Print Assumptions C07_memcpy16_s.
Theorem C07_memmove16_s : forall c d dmax s slen destbos srcbos m, d <> 0 -> s <> 0 -> 1 <= dmax -> 1 <= slen -> ((destbos = BOS_UNKNOWN /\ dmax <= rmax_mem c) \/ (destbos <> BOS_UNKNOWN /\ dmax <= destbos)) -> (srcbos = BOS_UNKNOWN \/ slen * 2 <= srcbos) -> wp (memmove16_s c d dmax s slen destbos srcbos) m (mem_copy_post c 2 false d (eff_dmax true dmax destbos) s slen m).
Proof. intros. exact (mem_copy_gen_spec c 2 (rmax_mem c) true false EOVERFLOW false d dmax s slen destbos srcbos m ltac:(lia) H H0 H1 H2 H3 H4). Qed.
Print Assumptions C07_memmove16_s.
Theorem C07_memcpy32_s : forall c d dmax s slen destbos srcbos m, d <> 0 -> s <> 0 -> 1 <= dmax -> 1 <= slen -> ((destbos = BOS_UNKNOWN /\ dmax <= rmax_mem c) \/ (destbos <> BOS_UNKNOWN /\ dmax <= destbos)) -> (srcbos = BOS_UNKNOWN \/ slen * 4 <= srcbos) -> wp (memcpy32_s c d dmax s slen destbos srcbos) m (mem_copy_post c 4 true d (eff_dmax true dmax destbos) s slen m).
Proof. intros. exact (mem_copy_gen_spec c 4 (rmax_mem c) true true ESLEMAX false d dmax s slen destbos srcbos m ltac:(lia) H H0 H1 H2 H3 H4). Qed.
Print Assumptions C07_memcpy32_s.
Theorem C07_memmove32_s : forall c d dmax s slen destbos srcbos m, d <> 0 -> s <> 0 -> 1 <= dmax -> 1 <= slen -> ((destbos = BOS_UNKNOWN /\ dmax <= rmax_mem c) \/ (destbos <> BOS_UNKNOWN /\ dmax <= destbos)) -> (srcbos = BOS_UNKNOWN \/ slen * 4 <= srcbos) -> wp (memmove32_s c d dmax s slen destbos srcbos) m (mem_copy_post c 4 false d (eff_dmax true dmax destbos) s slen m).
Proof. intros. exact (mem_copy_gen_spec c 4 (rmax_mem c) true false EOVERFLOW false d dmax s slen destbos srcbos m ltac:(lia) H H0 H1 H2 H3 H4). Qed.
Print Assumptions C07_memmove32_s.
Theorem C07_overlap_test_is_intersection : forall dp dlen sp slen, 0 < dlen -> 0 < slen -> (chk_ovrlp_butsame dp dlen sp slen = true <-> (dp <> sp /\ dp < sp + slen /\ sp < dp + dlen)).
Proof. exact chk_ovrlp_butsame_spec. Qed.
Print Assumptions C07_overlap_test_is_intersection.
Theorem C07_overlap_test_strict : forall dp dlen sp slen, 0 < dlen -> 0 < slen -> (chk_ovrlp dp dlen sp slen = true <-> (dp < sp + slen /\ sp < dp + dlen)).
Proof. exact chk_ovrlp_spec. Qed.
Print Assumptions C07_overlap_test_strict.

Theorem C07_cfg_repo_wf : wf_cfg cfg_repo.
Proof. exact wf_cfg_repo. Qed.
Print Assumptions C07_cfg_repo_wf.
