(* Cfg.v -- build configuration record, error codes, size constants. *)
From Coq Require Import List ZArith Lia Bool.
From SC Require Import Base.
Local Open Scope Z_scope.

Record cfg := mkCfg {
  null_slack : bool;       (* SAFECLIB_STR_NULL_SLACK *)
  rmax_str : Z;            (* RSIZE_MAX_STR *)
  rmax_mem : Z;            (* RSIZE_MAX_MEM *)
  rmax_wstr : Z;           (* RSIZE_MAX_WSTR *)
  rmax_mem16 : Z;
  rmax_mem32 : Z;
  tok_delim_max : Z;       (* STRTOK_DELIM_MAX_LEN *)
  wchar_w : Z              (* sizeof(wchar_t) *)
}.

Definition wf_cfg (c : cfg) : Prop :=
  0 < rmax_str c /\ 0 < rmax_mem c /\ 0 < rmax_wstr c /\ 0 < rmax_mem16 c /\ 0 < rmax_mem32 c /\
  0 < tok_delim_max c /\ (wchar_w c = 4 \/ wchar_w c = 2) /\ rmax_str c < 2 ^ 62 /\ rmax_mem c < 2 ^ 62.

Definition EOK := 0.
Definition ESNULLP := 400.
Definition ESZEROL := 401.
Definition ESLEMIN := 402.
Definition ESLEMAX := 403.
Definition ESOVRLP := 404.
Definition ESEMPTY := 405.
Definition ESNOSPC := 406.
Definition ESUNTERM := 407.
Definition ESNODIFF := 408.
Definition ESNOTFND := 409.
Definition ESLEWRNG := 410.
Definition EOVERFLOW := 75.
Definition EINVAL := 22.
Definition ERANGE := 34.
Definition EILSEQ := 84.
Definition BOS_UNKNOWN := 18446744073709551615.   (* (size_t)-1 *)
Definition SIZE_MOD := 18446744073709551616.

(* name/value table compared with the headers by the Consts translator *)
Definition errcodes_model : list Z :=
  (EOK :: ESNULLP :: ESZEROL :: ESLEMIN :: ESLEMAX :: ESOVRLP :: ESEMPTY :: ESNOSPC :: ESUNTERM ::
   ESNODIFF :: ESNOTFND :: ESLEWRNG :: EOVERFLOW :: EINVAL :: ERANGE :: EILSEQ :: nil).

(* default configuration used in examples (the real one is generated: Gen/Consts.v) *)
Definition cfg_default : cfg := mkCfg true 4096 268435456 1024 134217728 67108864 16 4.
Definition cfg_noslack : cfg := mkCfg false 4096 268435456 1024 134217728 67108864 16 4.
Lemma wf_cfg_default : wf_cfg cfg_default.
Proof. unfold wf_cfg, cfg_default; cbn. lia. Qed.
Lemma wf_cfg_noslack : wf_cfg cfg_noslack.
Proof. unfold wf_cfg, cfg_noslack; cbn. lia. Qed.
