(* ProofsMem.v -- lemmas about the models in ModMem.v *)
From Coq Require Import List ZArith Lia Bool.
From SC Require Import Base Cfg Comb CombProofs ModMem.
Import ListNotations.
Local Open Scope Z_scope.
Local Open Scope prog_scope.

Lemma set_loop_writes w n v : 0 < w -> forall d, writes_in (ext d (Z.of_nat n * w)) (set_loop w n d v).
Proof.
  intros Hw. induction n as [|n IH]; intros d; cbn [set_loop writes_in]; [exact I|].
  rewrite Nat2Z.inj_succ, Z.mul_succ_l. split.
  - apply range_ext; lia.
  - eapply writes_in_weaken; [|apply IH]. apply ext_sub; lia.
Qed.
Lemma prim_set_writes w d n v : 0 < w -> 0 <= n -> writes_in (ext d (n * w)) (prim_set w d n v).
Proof.
  intros Hw Hn. unfold prim_set. destruct (w =? 1) eqn:E.
  - assert (w = 1) by lia. subst. cbn. split; [|exact I]. apply range_ext; lia.
  - destruct (v =? 0).
    + cbn. split; [|exact I]. apply range_ext; lia.
    + replace (n * w) with (Z.of_nat (Z.to_nat n) * w) by (rewrite Z2Nat.id; lia). apply set_loop_writes; auto.
Qed.

Lemma chk_dest_mem_writes rmax d dmax destbos (k : unit -> prog Z) (P : Z -> Prop) :
  0 <= dmax -> (destbos = BOS_UNKNOWN \/ dmax <= destbos) ->
  (d <> 0 -> 1 <= dmax -> writes_in P (k tt)) ->
  writes_in P (chk_dest_mem rmax d dmax destbos k).
Proof.
  intros H0 Hb Hk. unfold chk_dest_mem, fail_mem.
  destruct (d =? 0) eqn:E1; [exact I|]. destruct (dmax =? 0) eqn:E2; [exact I|].
  assert (d <> 0) by lia. assert (1 <= dmax) by lia.
  destruct (destbos =? BOS_UNKNOWN) eqn:E3.
  - destruct (rmax <? dmax); [exact I|auto].
  - destruct (destbos <? dmax) eqn:E4; [|auto]. lia.
Qed.

(* the bound the copy functions really use *)
Definition eff_dmax (use_bos : bool) (dmax destbos : Z) : Z :=
  if use_bos && negb (destbos =? BOS_UNKNOWN) then destbos else dmax.

Lemma mem_copy_gen_writes c w rmax use_bos ovl code clr d dmax s slen destbos srcbos :
  0 < w -> 0 <= dmax -> 0 <= slen -> (destbos = BOS_UNKNOWN \/ dmax <= destbos) ->
  writes_in (ext d (eff_dmax use_bos dmax destbos))
            (mem_copy_gen c w rmax use_bos ovl code clr d dmax s slen destbos srcbos).
Proof.
  intros Hw H0 Hs Hb. unfold mem_copy_gen. destruct (slen =? 0); [exact I|].
  apply chk_dest_mem_writes; auto. intros Hd H1. fold (eff_dmax use_bos dmax destbos).
  set (D := eff_dmax use_bos dmax destbos).
  destruct (s =? 0). { apply writes_in_bind; [|intros; exact I]. apply handle_mem_error_writes; auto. }
  destruct (D <? slen * w) eqn:E. { apply writes_in_bind; [|intros; exact I]. apply handle_mem_error_writes; auto. }
  destruct (negb (srcbos =? BOS_UNKNOWN) && (srcbos <? slen * w)).
  { apply writes_in_bind; [|intros; exact I]. destruct clr; cbn; auto. split; [|exact I]. apply range_ext; lia. }
  destruct (ovl && chk_ovrlp_butsame d (D / w * w) s (slen * w)).
  { cbn. split; [|exact I]. apply range_ext; lia. }
  cbn. split; [|exact I]. apply range_ext; lia.
Qed.

Lemma memset_s_writes c d dmax value n destbos :
  0 <= dmax -> 0 <= n -> (destbos = BOS_UNKNOWN \/ dmax <= destbos) ->
  writes_in (ext d (eff_dmax true dmax destbos)) (memset_s c d dmax value n destbos).
Proof.
  intros H0 Hn Hb. unfold memset_s, fail_mem, eff_dmax. destruct (d =? 0); [exact I|]. destruct (n =? 0); [exact I|].
  assert (G : forall D, writes_in (ext d D)
    (if 255 <? value then Handler HMem ESLEMAX (Ret ESLEMAX)
     else if D <? n then let err := if rmax_mem c <? n then ESLEMAX else ESNOSPC in Handler HMem err (Fill d D value (Ret err))
     else Fill d n value (Ret EOK))).
  { intros D. destruct (255 <? value); [exact I|]. destruct (D <? n) eqn:E; cbn; (split; [|exact I]); apply range_ext; lia. }
  cbn [andb]. destruct (destbos =? BOS_UNKNOWN) eqn:E3; cbn [negb].
  - destruct (rmax_mem c <? dmax); [exact I|apply G].
  - destruct (destbos <? dmax); [destruct (rmax_mem c <? dmax); exact I|apply G].
Qed.

Lemma memsetw_s_writes c w rmaxw d dmax value n destbos :
  0 < w -> 0 <= dmax -> 0 <= n -> (destbos = BOS_UNKNOWN \/ dmax <= destbos) ->
  writes_in (ext d (eff_dmax true dmax destbos)) (memsetw_s c w rmaxw d dmax value n destbos).
Proof.
  intros Hw H0 Hn Hb. unfold memsetw_s, fail_mem, eff_dmax. destruct (d =? 0); [exact I|]. destruct (n =? 0); [exact I|].
  assert (G : forall D, 0 <= D -> writes_in (ext d D)
    (if D / w <? n then let err := if rmaxw <? n then ESLEMAX else ESNOSPC in Handler HMem err (prim_set w d (D / w) value ;;; Ret err)
     else prim_set w d n value ;;; Ret EOK)).
  { intros D HD. pose proof (Z.mul_div_le D w Hw). assert (0 <= D / w) by (apply Z.div_pos; lia).
    destruct (D / w <? n) eqn:E; cbn [writes_in]; (apply writes_in_bind; [|intros; exact I]);
      (eapply writes_in_weaken; [|apply prim_set_writes; auto; lia]); apply ext_sub; nia. }
  cbn [andb]. destruct (destbos =? BOS_UNKNOWN) eqn:E3; cbn [negb].
  - destruct (rmax_mem c <? dmax); [exact I|apply G; lia].
  - destruct (destbos <? dmax) eqn:E4; [destruct (rmax_mem c <? dmax); exact I|apply G; lia].
Qed.

Lemma memzerow_s_writes c w d len destbos :
  0 < w -> 0 <= len -> (destbos = BOS_UNKNOWN \/ len * w <= destbos) ->
  writes_in (ext d (len * w)) (memzerow_s c w d len destbos).
Proof.
  intros Hw Hl Hb. unfold memzerow_s. apply chk_dest_mem_writes; auto; try nia.
  intros _ _. cbn. split; [|exact I]. apply range_ext; lia.
Qed.
