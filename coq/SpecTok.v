(* SpecTok.v -- reference tokeniser (C14): the textbook "maximal delimiter-free substrings"
   and the per-call reference for delimiter sets that change between calls; list level,
   no memory.  Proofs that the two agree for a constant delimiter set. *)
From Coq Require Import List ZArith Lia Bool.
Import ListNotations.
Local Open Scope Z_scope.

Definition isdelim (dl : list Z) (ch : Z) : bool := existsb (Z.eqb ch) dl.

(* maximal prefix whose elements satisfy f, and the rest *)
Fixpoint span (f : Z -> bool) (s : list Z) : list Z * list Z :=
  match s with
  | [] => ([], [])
  | ch :: s' => if f ch then let '(a, b) := span f s' in (ch :: a, b) else ([], s)
  end.

(* ---- the textbook definition: split at delimiters, drop the empty pieces ---- *)
Fixpoint split_at (dl : list Z) (s cur : list Z) : list (list Z) :=
  match s with
  | [] => [rev cur]
  | ch :: s' => if isdelim dl ch then rev cur :: split_at dl s' [] else split_at dl s' (ch :: cur)
  end.
Definition nonempty (t : list Z) : bool := match t with [] => false | _ => true end.
Definition tokens (dl s : list Z) : list (list Z) := filter nonempty (split_at dl s []).

(* ---- one call of the reference: skip delimiters, take the token, consume one delimiter ----
   result: None (no token; the whole rest is consumed) or Some (skipped, token, rest after the
   consumed delimiter, whether a delimiter was consumed) *)
Definition ref_call (dl s : list Z) : option (list Z * list Z * list Z * bool) :=
  let '(sk, r1) := span (isdelim dl) s in
  match r1 with
  | [] => None
  | _ :: _ =>
      let '(tok, r2) := span (fun ch => negb (isdelim dl ch)) r1 in
      match r2 with
      | [] => Some (sk, tok, [], false)
      | _ :: r3 => Some (sk, tok, r3, true)
      end
  end.

(* a call sequence with one delimiter set per call *)
Fixpoint ref_seq (dls : list (list Z)) (s : list Z) : list (option (list Z)) :=
  match dls with
  | [] => []
  | dl :: dls' =>
      match ref_call dl s with
      | None => None :: ref_seq dls' []
      | Some (_, tok, rest, _) => Some tok :: ref_seq dls' rest
      end
  end.

(* ---------- lemmas ---------- *)
Lemma span_app f s : let '(a, b) := span f s in s = a ++ b.
Proof. induction s as [|ch s IH]; cbn; auto. destruct (f ch); auto. destruct (span f s). cbn. now f_equal. Qed.
Lemma span_all f s : let '(a, b) := span f s in forallb f a = true.
Proof. induction s as [|ch s IH]; cbn; auto. destruct (f ch) eqn:E; auto. destruct (span f s). cbn. now rewrite E. Qed.
Lemma span_stop f s : let '(a, b) := span f s in match b with [] => True | ch :: _ => f ch = false end.
Proof. induction s as [|ch s IH]; cbn; auto. destruct (f ch) eqn:E; auto. destruct (span f s). exact IH. Qed.
Lemma span_length f s : let '(a, b) := span f s in (length a + length b = length s)%nat.
Proof. pose proof (span_app f s) as H. destruct (span f s) as [a b]. subst s. now rewrite app_length. Qed.

Lemma ref_call_nil dl : ref_call dl [] = None.
Proof. reflexivity. Qed.

(* split_at with a pending non-empty accumulator *)
Lemma split_at_span_tok dl : forall s cur,
  let '(tok, r2) := span (fun ch => negb (isdelim dl ch)) s in
  split_at dl s cur = match r2 with
                      | [] => [rev cur ++ tok]
                      | _ :: r3 => (rev cur ++ tok) :: split_at dl r3 []
                      end.
Proof.
  induction s as [|ch s IH]; intros cur; cbn.
  - now rewrite app_nil_r.
  - destruct (isdelim dl ch) eqn:E; cbn.
    + now rewrite app_nil_r.
    + specialize (IH (ch :: cur)). destruct (span _ s) as [tok r2]. rewrite IH. cbn [rev].
      destruct r2; rewrite <- app_assoc; reflexivity.
Qed.
Lemma split_at_span_skip dl : forall s,
  let '(sk, r1) := span (isdelim dl) s in
  filter nonempty (split_at dl s []) = filter nonempty (split_at dl r1 []).
Proof.
  induction s as [|ch s IH]; cbn; auto.
  destruct (isdelim dl ch) eqn:E; cbn.
  - destruct (span (isdelim dl) s) as [sk r1]. exact IH.
  - rewrite E. reflexivity.
Qed.

(* the per-call reference enumerates exactly the textbook tokens *)
Lemma tokens_ref_call dl s :
  tokens dl s = match ref_call dl s with
                | None => []
                | Some (_, tok, rest, _) => tok :: tokens dl rest
                end.
Proof.
  unfold tokens, ref_call. pose proof (split_at_span_skip dl s) as H1. pose proof (span_stop (isdelim dl) s) as Hs.
  destruct (span (isdelim dl) s) as [sk r1]. rewrite H1.
  destruct r1 as [|ch r1]; [reflexivity|].
  pose proof (split_at_span_tok dl (ch :: r1) []) as H2.
  assert (Hne : forall tok r2, span (fun ch => negb (isdelim dl ch)) (ch :: r1) = (tok, r2) -> nonempty tok = true).
  { cbn. rewrite Hs. cbn. destruct (span _ r1). intros tok r2 [= <- _]. reflexivity. }
  destruct (span (fun ch0 => negb (isdelim dl ch0)) (ch :: r1)) as [tok r2] eqn:E. specialize (Hne _ _ eq_refl).
  rewrite H2. cbn [rev app]. destruct r2 as [|d r3]; cbn [filter]; rewrite Hne; reflexivity.
Qed.

Lemma tokens_nil dl : tokens dl [] = [].
Proof. reflexivity. Qed.

(* constant delimiter set: the sequence is the tokens, each once, then None forever *)
Lemma ref_seq_const dl : forall k s, (length (tokens dl s) <= k)%nat ->
  ref_seq (repeat dl k) s = map Some (tokens dl s) ++ repeat None (k - length (tokens dl s)).
Proof.
  induction k as [|k IH]; intros s Hk.
  - destruct (tokens dl s); [reflexivity|cbn in Hk; lia].
  - cbn [repeat ref_seq]. rewrite (tokens_ref_call dl s) in *. destruct (ref_call dl s) as [[[[sk tok] rest] b]|].
    + cbn [map app length] in *. rewrite IH by lia. reflexivity.
    + cbn [map app length] in *. rewrite IH by (rewrite tokens_nil; cbn; lia). rewrite tokens_nil. cbn.
      now rewrite Nat.sub_0_r.
Qed.

(* every reference token is non-empty, delimiter-free, and tokens are what is left when the
   delimiters are removed *)
Lemma ref_call_tok dl s sk tok rest b : ref_call dl s = Some (sk, tok, rest, b) ->
  tok <> [] /\ forallb (fun ch => negb (isdelim dl ch)) tok = true /\ forallb (isdelim dl) sk = true /\
  (if b then exists d, isdelim dl d = true /\ s = sk ++ tok ++ d :: rest else rest = [] /\ s = sk ++ tok).
Proof.
  unfold ref_call. pose proof (span_app (isdelim dl) s) as A1. pose proof (span_all (isdelim dl) s) as A2.
  pose proof (span_stop (isdelim dl) s) as A3. destruct (span (isdelim dl) s) as [sk' r1].
  destruct r1 as [|ch r1]; [discriminate|].
  pose proof (span_app (fun ch => negb (isdelim dl ch)) (ch :: r1)) as B1.
  pose proof (span_all (fun ch => negb (isdelim dl ch)) (ch :: r1)) as B2.
  pose proof (span_stop (fun ch => negb (isdelim dl ch)) (ch :: r1)) as B3.
  assert (Hne : fst (span (fun ch => negb (isdelim dl ch)) (ch :: r1)) <> []).
  { cbn. rewrite A3. cbn. destruct (span _ r1). cbn. discriminate. }
  destruct (span (fun ch0 => negb (isdelim dl ch0)) (ch :: r1)) as [tok' r2]. cbn [fst] in Hne.
  destruct r2 as [|d r3]; intros [= <- <- <- <-]; repeat split; auto.
  - rewrite A1, B1. now rewrite app_nil_r.
  - exists d. split; [now apply negb_false_iff in B3|]. now rewrite A1, B1.
Qed.
