(* Properties_C19.v -- C19: timingsafe comparisons.  Only theorem statements, each closed by [exact]. *)
From Coq Require Import List ZArith Lia Bool.
From SC Require Import Base Wp Cfg Comb ModTs ProofsTs ConstTime.
From SC.Gen Require Import Consts TsProgs.
Import ListNotations.
Local Open Scope Z_scope.

(* (a) results, every n, all contents *)
Theorem C19_bcmp_result : forall n p1 p2 m, wf_mem m ->
  wp (bcmp_loop n p1 p2 0) m (fun r m' =>
     (r = 0 \/ r = 1) /\ (r = 0 <-> (0 = 0 /\ forall i, 0 <= i < Z.of_nat n -> m (p1 + i) = m (p2 + i)))).
Proof. intros. exact (bcmp_loop_spec n p1 p2 0 m H (Z.le_refl 0)). Qed.
Print Assumptions C19_bcmp_result.
Theorem C19_memcmp_result : forall n p1 p2 m, wf_mem m ->
  wp (tsmemcmp_loop n p1 p2 0 0) m (fun r m' => r = first_diff_sign n m p1 p2).
Proof. intros. exact (tsmemcmp_loop_spec n p1 p2 0 0 m H (or_introl (conj eq_refl eq_refl))). Qed.
Print Assumptions C19_memcmp_result.
(* the byte-pair facts behind it: a finite sweep over all 256 x 256 pairs, lifted *)
Theorem C19_byte_pairs : forall a b, 0 <= a < 256 -> 0 <= b < 256 -> Z.shiftr (a - b) 8 = if a <? b then -1 else 0.
Proof. exact shiftr_byte_diff. Qed.
Print Assumptions C19_byte_pairs.

(* (b) data independence: proved once for the language ... *)
Theorem C19_welltyped_leaks_nothing : forall nvars s, ct_check nvars s = true ->
  forall fuel e m1 m2,
  match cexec fuel s e m1, cexec fuel s e m2 with
  | Some (_, l1), Some (_, l2) => l1 = l2
  | None, None => True
  | _, _ => False
  end.
Proof. exact ct_check_sound. Qed.
Print Assumptions C19_welltyped_leaks_nothing.
(* ... and discharged for the loops of the working tree, regenerated from the clang AST on every run:
   for a given n (and pointers), the sequence of branch outcomes and accessed addresses is the same
   for all contents of both regions *)
Theorem C19_bcmp_source_is_constant_time :
  translation_complete = true /\ ct_check timingsafe_bcmp_chk_nvars timingsafe_bcmp_chk_body = true.
Proof. vm_compute. split; reflexivity. Qed.
Print Assumptions C19_bcmp_source_is_constant_time.
Theorem C19_memcmp_source_is_constant_time :
  translation_complete = true /\ ct_check timingsafe_memcmp_chk_nvars timingsafe_memcmp_chk_body = true.
Proof. vm_compute. split; reflexivity. Qed.
Print Assumptions C19_memcmp_source_is_constant_time.

(* bounded cross-check (a test, not the theorem): on all regions of length <= 3 over {0, 1, 255} the
   regenerated loops compute what the hand models compute *)
Definition ast_result (body : cstmt) (ret : cexpr) (p1 p2 n : Z) (m : Z -> Z) : option Z :=
  match cexec 200 body (fun x => match x with O => p1 | S O => p2 | S (S O) => n | _ => 0 end) m with
  | Some (env, _) => Some (fst (ceval ret env m)) | None => None end.
Definition mem3 (a b c d e f : Z) : Z -> Z := fun x =>
  if x =? 100 then a else if x =? 101 then b else if x =? 102 then c else if x =? 200 then d else if x =? 201 then e else if x =? 202 then f else 0.
Definition vals := [0; 1; 255].
Definition cross_check : bool :=
  forallb (fun n => forallb (fun a => forallb (fun b => forallb (fun c0 => forallb (fun d => forallb (fun e => forallb (fun f =>
    let m := mem3 a b c0 d e f in
    match ast_result timingsafe_bcmp_chk_body timingsafe_bcmp_chk_ret 100 200 n m, ast_result timingsafe_memcmp_chk_body timingsafe_memcmp_chk_ret 100 200 n m with
    | Some r1, Some r2 =>
        (r1 =? fst (fst (exec (bcmp_loop (Z.to_nat n) 100 200 0) m))) && (r2 =? fst (fst (exec (tsmemcmp_loop (Z.to_nat n) 100 200 0 0) m)))
    | _, _ => false
    end) vals) vals) vals) vals) vals) vals) [0; 1; 2; 3].
Theorem C19_generated_agrees_with_model_bounded : cross_check = true.
Proof. vm_compute. reflexivity. Qed.
