(* ProofsStr.v -- lemmas about the models in ModStr.v *)
From Coq Require Import List ZArith Lia Bool.
From SC Require Import Base Cfg Comb CombProofs ModStr.
Import ListNotations.
Local Open Scope Z_scope.
Local Open Scope prog_scope.

(* ================= C01: writes stay inside dest[0 .. dmax) ================= *)
Lemma strcpy_s_writes c d dmax s destbos :
  0 <= dmax -> (destbos = BOS_UNKNOWN \/ dmax <= destbos) ->
  writes_in (ext d dmax) (strcpy_s c d dmax s destbos).
Proof.
  intros H0 Hb. unfold strcpy_s. apply chk_dest_str_writes; auto. intros Hd H1.
  destruct (s =? 0).
  { apply writes_in_bind; [|intros; exact I]. apply handle_error_writes; try lia. intros a. rewrite Z.mul_1_r. auto. }
  destruct (d =? s); [exact I|].
  destruct (d <? s); (eapply writes_in_weaken; [|apply copy_loop_writes; lia]);
    intros a; rewrite Z.mul_1_r; auto.
Qed.

Lemma wcscpy_s_writes c d dmax s destbos :
  wf_cfg c -> 0 <= dmax -> (destbos = BOS_UNKNOWN \/ dmax * wchar_w c <= destbos) ->
  writes_in (ext d (dmax * wchar_w c)) (wcscpy_s c d dmax s destbos).
Proof.
  intros Hc H0 Hb. assert (Hw : 0 < wchar_w c) by (destruct Hc as (_&_&_&_&_&_&[->| ->]&_); lia).
  unfold wcscpy_s. apply chk_dest_wstr_writes; auto. intros Hd H1.
  destruct (s =? 0).
  { apply writes_in_bind; [|intros; exact I]. apply handle_error_writes; try lia. auto. }
  destruct (d =? s); [exact I|].
  destruct (d <? s); apply copy_loop_writes; lia.
Qed.

Lemma strcat_s_writes c d dmax s destbos :
  0 <= dmax -> (destbos = BOS_UNKNOWN \/ dmax <= destbos) ->
  writes_in (ext d dmax) (strcat_s c d dmax s destbos).
Proof.
  intros H0 Hb. unfold strcat_s. apply chk_dest_str_writes; auto. intros Hd H1.
  assert (HP : forall a, ext d (dmax * 1) a -> ext d dmax a) by (intros a; rewrite Z.mul_1_r; auto).
  destruct (s =? 0).
  { apply writes_in_bind; [|intros; exact I]. apply handle_error_writes; try lia. auto. }
  destruct (d <? s); (eapply writes_in_weaken; [exact HP|]);
    (apply find_end_writes; try lia);
    intros n' d' Hd' Hn'; apply copy_loop_writes; try lia.
Qed.

Lemma slen_max_clear_writes c d dmax : 1 <= dmax -> writes_in (ext d dmax) (slen_max_clear c d dmax).
Proof.
  intros H1. unfold slen_max_clear.
  eapply writes_in_bind_rets with (Q := fun r => 0 <= r <= dmax).
  - eapply writes_in_weaken; [|apply strnlen_s_prog_writes]. intros a [].
  - apply strnlen_s_prog_rets. lia.
  - intros len Hl. apply writes_in_bind; [|intros; exact I].
    unfold handle_error. apply writes_in_bind; [|intros; exact I].
    destruct (null_slack c); cbn; (split; [|exact I]); intros x Hx; unfold ext; lia.
Qed.

Lemma strncpy_s_writes c d dmax s slen destbos srcbos :
  0 <= dmax -> (destbos = BOS_UNKNOWN \/ dmax <= destbos) -> (srcbos = BOS_UNKNOWN \/ slen <= srcbos) ->
  writes_in (ext d dmax) (strncpy_s c d dmax s slen destbos srcbos).
Proof.
  intros H0 Hb Hs. unfold strncpy_s.
  destruct ((slen =? 0) && negb (d =? 0) && negb (dmax =? 0)) eqn:E.
  { cbn. split; [|exact I]. apply andb_prop in E. destruct E as [_ E]. apply negb_true_iff in E.
    intros x Hx. unfold ext. lia. }
  apply chk_dest_str_writes; auto. intros Hd H1.
  assert (HP : forall a, ext d (dmax * 1) a -> ext d dmax a) by (intros a; rewrite Z.mul_1_r; auto).
  destruct (s =? 0).
  { apply writes_in_bind; [|intros; exact I]. apply handle_error_writes; try lia. auto. }
  destruct (rmax_str c <? slen). { apply slen_max_clear_writes; auto. }
  destruct (negb (srcbos =? BOS_UNKNOWN) && (srcbos <? slen)) eqn:Es.
  { exfalso. apply andb_prop in Es. destruct Es as [E1 E2]. apply negb_true_iff in E1. destruct Hs; lia. }
  destruct (d <? s); (eapply writes_in_weaken; [exact HP|]); apply copy_loop_writes; lia.
Qed.

Lemma strncat_s_writes c d dmax s slen destbos srcbos :
  0 <= dmax -> (destbos = BOS_UNKNOWN \/ dmax <= destbos) -> (srcbos = BOS_UNKNOWN \/ slen <= srcbos) ->
  writes_in (ext d dmax) (strncat_s c d dmax s slen destbos srcbos).
Proof.
  intros H0 Hb Hs. unfold strncat_s.
  destruct ((slen =? 0) && (d =? 0) && (dmax =? 0)); [exact I|].
  apply chk_dest_str_writes; auto. intros Hd H1.
  assert (HP : forall a, ext d (dmax * 1) a -> ext d dmax a) by (intros a; rewrite Z.mul_1_r; auto).
  destruct (s =? 0).
  { apply writes_in_bind; [|intros; exact I]. apply handle_error_writes; try lia. auto. }
  destruct (rmax_str c <? slen). { apply slen_max_clear_writes; auto. }
  destruct (slen =? 0).
  { eapply writes_in_bind_rets with (Q := fun _ => True).
    - eapply writes_in_weaken; [|apply strnlen_s_prog_writes]. intros a [].
    - eapply rets_weaken; [|apply strnlen_s_prog_rets; lia]. auto.
    - intros len _. apply writes_in_bind; [|intros; exact I]. apply handle_error_writes; try lia. auto. }
  destruct (negb (srcbos =? BOS_UNKNOWN) && (srcbos <? slen)) eqn:Es.
  { exfalso. apply andb_prop in Es. destruct Es as [E1 E2]. apply negb_true_iff in E1. destruct Hs; lia. }
  destruct (d <? s); (eapply writes_in_weaken; [exact HP|]);
    (apply find_end_writes; try lia);
    intros n' d' Hd' Hn'; apply copy_loop_writes; try lia.
Qed.

Lemma strnlen_s_writes c str smax bos : writes_in nowhere (strnlen_s c str smax bos).
Proof. apply strnlen_s_prog_writes. Qed.

(* ================= C05: handler invocations vs. return code ================= *)
Ltac cne := let H := fresh in intro H; vm_compute in H; discriminate H.
Ltac rep1 := (apply report_one; cne).
Ltac herr := (apply handle_error_hspec; cbn [hspec]; rep1).

Lemma fail_str_hspec code : code <> 0 -> hspec (report_post HStr) [] (fail_str code).
Proof. intros H. cbn. apply report_one; auto. Qed.

Lemma bos_overflow_hspec c d dmax : d <> 0 -> 1 <= dmax <= rmax_str c ->
  hspec (report_post HStr) [] (bos_overflow c d dmax).
Proof.
  intros Hd Hm. unfold bos_overflow. apply strnlen_s_prog_hspec_ok; auto. intros len.
  destruct (rmax_str c <? len); herr.
Qed.

Lemma chk_dest_str_hspec c d dmax destbos (k : unit -> prog Z) :
  0 <= dmax -> (destbos = BOS_UNKNOWN \/ 1 <= destbos) ->
  (d <> 0 -> 1 <= dmax -> hspec (report_post HStr) [] (k tt)) ->
  hspec (report_post HStr) [] (chk_dest_str c d dmax destbos k).
Proof.
  intros H0 Hb Hk. unfold chk_dest_str.
  destruct (d =? 0) eqn:E1; [apply fail_str_hspec; cne|]. destruct (dmax =? 0) eqn:E2; [apply fail_str_hspec; cne|].
  assert (d <> 0) by lia. assert (1 <= dmax) by lia.
  destruct (destbos =? BOS_UNKNOWN) eqn:E3.
  - destruct (rmax_str c <? dmax); [apply fail_str_hspec; cne|auto].
  - destruct (destbos <? dmax) eqn:E4; [|auto].
    destruct (rmax_str c <? dmax) eqn:E5; [herr|].
    apply bos_overflow_hspec; auto. destruct Hb; lia.
Qed.

Lemma copy_loop_rep c w fwd od odmax bumper us n d s sl :
  hspec (report_post HStr) [] (copy_loop c w fwd od odmax bumper us n d s sl).
Proof. apply copy_loop_hspec; [apply report_ok|rep1|rep1]. Qed.
Lemma find_end_rep c w fwd od odmax bumper n d (k : nat -> Z -> prog Z) :
  (forall n' d', hspec (report_post HStr) [] (k n' d')) ->
  hspec (report_post HStr) [] (find_end c w fwd od odmax bumper n d k).
Proof. intros Hk. apply find_end_hspec; auto; rep1. Qed.

Lemma strcpy_s_hspec c d dmax s destbos : 0 <= dmax -> (destbos = BOS_UNKNOWN \/ 1 <= destbos) ->
  hspec (report_post HStr) [] (strcpy_s c d dmax s destbos).
Proof.
  intros H0 Hb. unfold strcpy_s. apply chk_dest_str_hspec; auto. intros Hd H1.
  destruct (s =? 0); [herr|]. destruct (d =? s); [apply report_ok|].
  destruct (d <? s); apply copy_loop_rep.
Qed.

Lemma strcat_s_hspec c d dmax s destbos : 0 <= dmax -> (destbos = BOS_UNKNOWN \/ 1 <= destbos) ->
  hspec (report_post HStr) [] (strcat_s c d dmax s destbos).
Proof.
  intros H0 Hb. unfold strcat_s. apply chk_dest_str_hspec; auto. intros Hd H1.
  destruct (s =? 0); [herr|].
  destruct (d <? s); apply find_end_rep; intros; apply copy_loop_rep.
Qed.

Lemma wcscpy_s_hspec c d dmax s destbos : hspec (report_post HStr) [] (wcscpy_s c d dmax s destbos).
Proof.
  unfold wcscpy_s, chk_dest_wstr.
  destruct (d =? 0); [apply fail_str_hspec; cne|]. destruct (dmax =? 0); [apply fail_str_hspec; cne|].
  assert (K : hspec (report_post HStr) []
    (if s =? 0 then handle_error c (wchar_w c) d dmax ESNULLP ;;; Ret ESNULLP
     else if d =? s then Ret EOK
     else if d <? s then copy_loop c (wchar_w c) true d dmax s false (Z.to_nat dmax) d s 0
     else copy_loop c (wchar_w c) false d dmax d false (Z.to_nat dmax) d s 0)).
  { destruct (s =? 0); [herr|]. destruct (d =? s); [apply report_ok|]. destruct (d <? s); apply copy_loop_rep. }
  destruct (destbos =? BOS_UNKNOWN).
  - destruct (rmax_wstr c <? dmax); [apply fail_str_hspec; cne|exact K].
  - destruct (destbos <? dmax * wchar_w c); [|exact K]. destruct (rmax_wstr c <? dmax); herr.
Qed.

(* the n-variants: the probe strnlen_s(dest, dmax) reports a second time when dmax itself exceeds
   RSIZE_MAX_STR (possible only with a known object size), and handle_str_bos_overflow when the known dest
   object size exceeds it; outside these regions: exactly one report.  (Before the repair of the
   "slen exceeds src" exit the region also excluded an unknown dest size there: two reports.) *)
Definition n_region_ok (c : cfg) (dmax slen destbos srcbos : Z) : Prop :=
  dmax <= rmax_str c /\ (srcbos = BOS_UNKNOWN \/ slen <= srcbos \/ destbos = BOS_UNKNOWN \/ 1 <= destbos <= rmax_str c).

Lemma slen_max_clear_hspec c d dmax : d <> 0 -> 1 <= dmax <= rmax_str c ->
  hspec (report_post HStr) [] (slen_max_clear c d dmax).
Proof. intros Hd Hm. unfold slen_max_clear. apply strnlen_s_prog_hspec_ok; auto. intros len. herr. Qed.

Lemma srcbos_branch_hspec c d dmax destbos srcbos slen (k : prog Z) : d <> 0 -> 1 <= dmax <= rmax_str c ->
  (srcbos = BOS_UNKNOWN \/ slen <= srcbos \/ destbos = BOS_UNKNOWN \/ 1 <= destbos <= rmax_str c) ->
  hspec (report_post HStr) [] k ->
  hspec (report_post HStr) [] (if negb (srcbos =? BOS_UNKNOWN) && (srcbos <? slen) then bos_overflow c d (if destbos =? BOS_UNKNOWN then dmax else destbos) else k).
Proof.
  intros Hd Hm Hs Hk. destruct (negb (srcbos =? BOS_UNKNOWN) && (srcbos <? slen)) eqn:E; [|exact Hk].
  apply andb_prop in E. destruct E as [E1 E2]. apply negb_true_iff in E1.
  destruct Hs as [->|[Hs|[->|Hs]]]; [rewrite Z.eqb_refl in E1; discriminate|lia| |].
  - rewrite Z.eqb_refl. apply bos_overflow_hspec; auto.
  - destruct (destbos =? BOS_UNKNOWN); apply bos_overflow_hspec; auto.
Qed.

Lemma strncpy_s_hspec c d dmax s slen destbos srcbos : 0 <= dmax -> (destbos = BOS_UNKNOWN \/ 1 <= destbos) ->
  n_region_ok c dmax slen destbos srcbos ->
  hspec (report_post HStr) [] (strncpy_s c d dmax s slen destbos srcbos).
Proof.
  intros H0 Hb [Hr Hs]. unfold strncpy_s.
  destruct ((slen =? 0) && negb (d =? 0) && negb (dmax =? 0)); [cbn; apply report_ok|].
  apply chk_dest_str_hspec; auto. intros Hd H1.
  destruct (s =? 0); [herr|].
  destruct (rmax_str c <? slen); [apply slen_max_clear_hspec; auto; lia|].
  apply srcbos_branch_hspec; auto; try lia. destruct (d <? s); apply copy_loop_rep.
Qed.

(* strncat_s with slen = 0 reports the code it computed, which is 0 when dest is terminated: refuted below *)
Lemma strncat_s_hspec c d dmax s slen destbos srcbos : 0 <= dmax -> (destbos = BOS_UNKNOWN \/ 1 <= destbos) ->
  n_region_ok c dmax slen destbos srcbos -> slen <> 0 ->
  hspec (report_post HStr) [] (strncat_s c d dmax s slen destbos srcbos).
Proof.
  intros H0 Hb [Hr Hs] Hsl. unfold strncat_s.
  replace (slen =? 0) with false by (symmetry; apply Z.eqb_neq; lia). cbn [andb].
  apply chk_dest_str_hspec; auto. intros Hd H1.
  destruct (s =? 0); [herr|].
  destruct (rmax_str c <? slen); [apply slen_max_clear_hspec; auto; lia|].
  apply srcbos_branch_hspec; auto; try lia. destruct (d <? s); apply find_end_rep; intros; apply copy_loop_rep.
Qed.

Lemma strnlen_s_hspec c str smax bos :
  hspec (fun hs r => (hs = [] \/ (r = 0 /\ exists code, code <> 0 /\ hs = [(HStr, code)]))) [] (strnlen_s c str smax bos).
Proof.
  unfold strnlen_s, strnlen_s_prog.
  destruct (str =? 0). { cbn. right. split; auto. exists ESNULLP. split; [cne|reflexivity]. }
  destruct (smax =? 0). { cbn. right. split; auto. exists ESZEROL. split; [cne|reflexivity]. }
  destruct (rmax_str c <? smax). { cbn. right. split; auto. exists ESLEMAX. split; [cne|reflexivity]. }
  apply hspec_no_handler; [apply nlen_loop_noh|]. intros a. left. reflexivity.
Qed.
