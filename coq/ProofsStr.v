(* ProofsStr.v -- lemmas about the models in ModStr.v *)
From Coq Require Import List ZArith Lia Bool.
From SC Require Import Base Cfg Comb CombProofs ModStr.
Import ListNotations.
Local Open Scope Z_scope.
Local Open Scope prog_scope.

(* ================= C01: writes stay inside dest[0 .. dmax) ================= *)
Lemma strcpy_s_writes c d dmax s destbos :
  0 <= dmax -> (destbos = BOS_UNKNOWN \/ dmax <= destbos) ->
  writes_in (ext d dmax) (strcpy_s c d dmax s destbos).
Proof.
  intros H0 Hb. unfold strcpy_s. apply chk_dest_str_writes; auto. intros Hd H1.
  destruct (s =? 0).
  { apply writes_in_bind; [|intros; exact I]. apply handle_error_writes; try lia. intros a. rewrite Z.mul_1_r. auto. }
  destruct (d =? s); [exact I|].
  destruct (d <? s); (eapply writes_in_weaken; [|apply copy_loop_writes; lia]);
    intros a; rewrite Z.mul_1_r; auto.
Qed.

Lemma wcscpy_s_writes c d dmax s destbos :
  wf_cfg c -> 0 <= dmax -> (destbos = BOS_UNKNOWN \/ dmax * wchar_w c <= destbos) ->
  writes_in (ext d (dmax * wchar_w c)) (wcscpy_s c d dmax s destbos).
Proof.
  intros Hc H0 Hb. assert (Hw : 0 < wchar_w c) by (destruct Hc as (_&_&_&_&_&_&[->| ->]&_); lia).
  unfold wcscpy_s. apply chk_dest_wstr_writes; auto. intros Hd H1.
  destruct (s =? 0).
  { apply writes_in_bind; [|intros; exact I]. apply handle_error_writes; try lia. auto. }
  destruct (d =? s); [exact I|].
  destruct (d <? s); apply copy_loop_writes; lia.
Qed.

Lemma strcat_s_writes c d dmax s destbos :
  0 <= dmax -> (destbos = BOS_UNKNOWN \/ dmax <= destbos) ->
  writes_in (ext d dmax) (strcat_s c d dmax s destbos).
Proof.
  intros H0 Hb. unfold strcat_s. apply chk_dest_str_writes; auto. intros Hd H1.
  assert (HP : forall a, ext d (dmax * 1) a -> ext d dmax a) by (intros a; rewrite Z.mul_1_r; auto).
  destruct (s =? 0).
  { apply writes_in_bind; [|intros; exact I]. apply handle_error_writes; try lia. auto. }
  destruct (d <? s); (eapply writes_in_weaken; [exact HP|]);
    (apply find_end_writes; try lia);
    intros n' d' Hd' Hn'; apply copy_loop_writes; try lia.
Qed.

Lemma slen_max_clear_writes c d dmax : 1 <= dmax -> writes_in (ext d dmax) (slen_max_clear c d dmax).
Proof.
  intros H1. unfold slen_max_clear.
  eapply writes_in_bind_rets with (Q := fun r => 0 <= r <= dmax).
  - eapply writes_in_weaken; [|apply strnlen_s_prog_writes]. intros a [].
  - apply strnlen_s_prog_rets. lia.
  - intros len Hl. apply writes_in_bind; [|intros; exact I].
    unfold handle_error. apply writes_in_bind; [|intros; exact I].
    destruct (null_slack c); cbn; (split; [|exact I]); intros x Hx; unfold ext; lia.
Qed.

Lemma strncpy_s_writes c d dmax s slen destbos srcbos :
  0 <= dmax -> (destbos = BOS_UNKNOWN \/ dmax <= destbos) -> (srcbos = BOS_UNKNOWN \/ slen <= srcbos) ->
  writes_in (ext d dmax) (strncpy_s c d dmax s slen destbos srcbos).
Proof.
  intros H0 Hb Hs. unfold strncpy_s.
  destruct ((slen =? 0) && negb (d =? 0) && negb (dmax =? 0)) eqn:E.
  { cbn. split; [|exact I]. apply andb_prop in E. destruct E as [_ E]. apply negb_true_iff in E.
    intros x Hx. unfold ext. lia. }
  apply chk_dest_str_writes; auto. intros Hd H1.
  assert (HP : forall a, ext d (dmax * 1) a -> ext d dmax a) by (intros a; rewrite Z.mul_1_r; auto).
  destruct (s =? 0).
  { apply writes_in_bind; [|intros; exact I]. apply handle_error_writes; try lia. auto. }
  destruct (rmax_str c <? slen). { apply slen_max_clear_writes; auto. }
  destruct (negb (srcbos =? BOS_UNKNOWN) && (srcbos <? slen)) eqn:Es.
  { exfalso. apply andb_prop in Es. destruct Es as [E1 E2]. apply negb_true_iff in E1. destruct Hs; lia. }
  destruct (d <? s); (eapply writes_in_weaken; [exact HP|]); apply copy_loop_writes; lia.
Qed.

Lemma strncat_s_writes c d dmax s slen destbos srcbos :
  0 <= dmax -> (destbos = BOS_UNKNOWN \/ dmax <= destbos) -> (srcbos = BOS_UNKNOWN \/ slen <= srcbos) ->
  writes_in (ext d dmax) (strncat_s c d dmax s slen destbos srcbos).
Proof.
  intros H0 Hb Hs. unfold strncat_s.
  destruct ((slen =? 0) && (d =? 0) && (dmax =? 0)); [exact I|].
  apply chk_dest_str_writes; auto. intros Hd H1.
  assert (HP : forall a, ext d (dmax * 1) a -> ext d dmax a) by (intros a; rewrite Z.mul_1_r; auto).
  destruct (s =? 0).
  { apply writes_in_bind; [|intros; exact I]. apply handle_error_writes; try lia. auto. }
  destruct (rmax_str c <? slen). { apply slen_max_clear_writes; auto. }
  destruct (slen =? 0).
  { eapply writes_in_bind_rets with (Q := fun _ => True).
    - eapply writes_in_weaken; [|apply strnlen_s_prog_writes]. intros a [].
    - eapply rets_weaken; [|apply strnlen_s_prog_rets; lia]. auto.
    - intros len _. apply writes_in_bind; [|intros; exact I]. apply handle_error_writes; try lia. auto. }
  destruct (negb (srcbos =? BOS_UNKNOWN) && (srcbos <? slen)) eqn:Es.
  { exfalso. apply andb_prop in Es. destruct Es as [E1 E2]. apply negb_true_iff in E1. destruct Hs; lia. }
  destruct (d <? s); (eapply writes_in_weaken; [exact HP|]);
    (apply find_end_writes; try lia);
    intros n' d' Hd' Hn'; apply copy_loop_writes; try lia.
Qed.

Lemma strnlen_s_writes c str smax bos : writes_in nowhere (strnlen_s c str smax bos).
Proof. apply strnlen_s_prog_writes. Qed.
