(* Properties_C03.v -- C03: string producers never leave dest unterminated
   Only theorem statements, each closed by [exact <lemma>], with Print Assumptions beneath. *)
From Coq Require Import List ZArith Lia Bool.
From SC Require Import Base Wp Cfg Comb CombProofs CopySpec ModStr ModMem ModExt ProofsStr ProofsMem SpecStr SpecMem SpecExt PropStr FnProps PropDefs.
From SC.Gen Require Import Consts.
Import ListNotations.
Local Open Scope Z_scope.

(* link from the wp statements below to executions: for every allocation-failure oracle,
   the result and final memory of [run] satisfy the postcondition *)
Theorem C03_wp_sound : forall (A : Type) (fail : nat -> bool) (p : prog A) st Q,
  wp p (wm st) Q -> let '(a, st') := run fail p st in Q a (wm st').
Proof. exact (@wp_run). Qed.
Print Assumptions C03_wp_sound.

(* ---- copy / concatenate family (generated from the table in harness/gen_fnprops.py) ---- *)
Theorem C03_strcpy_s : forall (c : cfg) (d dmax s destbos : Z) (m : mem) (L : Z), pre_strcpy_s c d dmax s destbos m L ->
  wp (strcpy_s c d dmax s destbos) m (fun _ m' => terminated 1 m' d dmax).
Proof. exact strcpy_s_C03. Qed.
Print Assumptions C03_strcpy_s.
Theorem C03_wcscpy_s : forall (c : cfg) (d dmax s destbos : Z) (m : mem) (L g : Z), pre_wcscpy_s c d dmax s destbos m L g ->
  wp (wcscpy_s c d dmax s destbos) m (fun _ m' => terminated (wchar_w c) m' d dmax).
Proof. exact wcscpy_s_C03. Qed.
Print Assumptions C03_wcscpy_s.
Theorem C03_strncpy_s : forall (c : cfg) (d dmax s slen destbos srcbos : Z) (m : mem) (t : Z), pre_strncpy_s c d dmax s slen destbos srcbos m t ->
  wp (strncpy_s c d dmax s slen destbos srcbos) m (fun _ m' => terminated 1 m' d dmax).
Proof. exact strncpy_s_C03. Qed.
Print Assumptions C03_strncpy_s.
Theorem C03_strcat_s : forall (c : cfg) (d dmax s destbos : Z) (m : mem) (P L : Z), pre_strcat_s c d dmax s destbos m P L ->
  wp (strcat_s c d dmax s destbos) m (fun _ m' => terminated 1 m' d dmax).
Proof. exact strcat_s_C03. Qed.
Print Assumptions C03_strcat_s.
Theorem C03_strncat_s : forall (c : cfg) (d dmax s slen destbos srcbos : Z) (m : mem) (P t : Z), pre_strncat_s c d dmax s slen destbos srcbos m P t ->
  wp (strncat_s c d dmax s slen destbos srcbos) m (fun _ m' => terminated 1 m' d dmax).
Proof. exact strncat_s_C03. Qed.
Print Assumptions C03_strncat_s.

(* strnterminate_s: always terminated within dmax, at the first NUL or at dmax-1; returns the length kept; nothing else changes *)
Theorem C03_strnterminate_s : forall c d dmax m, d <> 0 -> 1 <= dmax <= rmax_str c -> wp (strnterminate_s c d dmax BOS_UNKNOWN) m (fun r m' => 0 <= r < dmax /\ (forall i, 0 <= i < r -> m (d + i) <> 0) /\ (r < dmax - 1 -> m (d + r) = 0) /\ m' (d + r) = 0 /\ (forall a, a <> d + r -> m' a = m a)).
Proof. exact strnterminate_s_spec. Qed.
Print Assumptions C03_strnterminate_s.

Theorem C03_cfg_repo_wf : wf_cfg cfg_repo.
Proof. exact wf_cfg_repo. Qed.
Print Assumptions C03_cfg_repo_wf.
