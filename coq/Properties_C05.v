(* Properties_C05.v -- C05: every violation reported exactly once with the returned code
   Only theorem statements, each closed by [exact <lemma>], with Print Assumptions beneath. *)
From Coq Require Import List ZArith Lia Bool.
From SC Require Import Base Wp Cfg Comb CombProofs CopySpec ModStr ModMem ModExt ProofsStr ProofsMem SpecStr SpecMem SpecExt PropStr FnProps PropDefs.
From SC.Gen Require Import Consts.
Import ListNotations.
Local Open Scope Z_scope.

(* link from the wp statements below to executions: for every allocation-failure oracle,
   the result and final memory of [run] satisfy the postcondition *)
Theorem C05_wp_sound : forall (A : Type) (fail : nat -> bool) (p : prog A) st Q,
  wp p (wm st) Q -> let '(a, st') := run fail p st in Q a (wm st').
Proof. exact (@wp_run). Qed.
Print Assumptions C05_wp_sound.

Theorem C05_strcpy_s : forall c d dmax s destbos, 0 <= dmax -> (destbos = BOS_UNKNOWN \/ 1 <= destbos) -> C05_holds HStr (strcpy_s c d dmax s destbos).
Proof. intros. apply C05_from_hspec. exact (strcpy_s_hspec c d dmax s destbos H H0). Qed.
Print Assumptions C05_strcpy_s.
Theorem C05_strcat_s : forall c d dmax s destbos, 0 <= dmax -> (destbos = BOS_UNKNOWN \/ 1 <= destbos) -> C05_holds HStr (strcat_s c d dmax s destbos).
Proof. intros. apply C05_from_hspec. exact (strcat_s_hspec c d dmax s destbos H H0). Qed.
Print Assumptions C05_strcat_s.
Theorem C05_wcscpy_s : forall c d dmax s destbos, C05_holds HStr (wcscpy_s c d dmax s destbos).
Proof. intros. apply C05_from_hspec. exact (wcscpy_s_hspec c d dmax s destbos). Qed.
Print Assumptions C05_wcscpy_s.
Theorem C05_strncpy_s : forall c d dmax s slen destbos srcbos, 0 <= dmax -> (destbos = BOS_UNKNOWN \/ 1 <= destbos) -> n_region_ok c dmax slen destbos srcbos -> C05_holds HStr (strncpy_s c d dmax s slen destbos srcbos).
Proof. intros. apply C05_from_hspec. exact (strncpy_s_hspec c d dmax s slen destbos srcbos H H0 H1). Qed.
Print Assumptions C05_strncpy_s.
Theorem C05_strncat_s_except : forall c d dmax s slen destbos srcbos, 0 <= dmax -> (destbos = BOS_UNKNOWN \/ 1 <= destbos) -> n_region_ok c dmax slen destbos srcbos -> slen <> 0 -> C05_holds HStr (strncat_s c d dmax s slen destbos srcbos).
Proof. intros. apply C05_from_hspec. exact (strncat_s_hspec c d dmax s slen destbos srcbos H H0 H1 H2). Qed.
Print Assumptions C05_strncat_s_except.
(* known finding strncat_s-slen0-handler: slen = 0 on a terminated dest reports code 0 and returns EOK *)
Theorem C05_strncat_s_slen0_refuted : exists c d dmax s slen destbos srcbos m,
  let '(r, _, tr) := exec (strncat_s c d dmax s slen destbos srcbos) m in r = EOK /\ handlers tr = [(HStr, 0)].
Proof. exists cfg_default, 1000, 4, 2000, 0, BOS_UNKNOWN, BOS_UNKNOWN, (fun _ => 0). vm_compute. split; reflexivity. Qed.
Print Assumptions C05_strncat_s_slen0_refuted.
(* repaired (fix: strncpy_s/strncat_s/stpncpy_s ... slen exceeds the source object ...): slen exceeds a known source size while the
   dest size is unknown used to give two reports (ESLEMAX from the probe with an unknown size, then EOVERFLOW); now one, covered by
   C05_strncpy_s (n_region_ok admits destbos = BOS_UNKNOWN).  The former witness: *)
Example C05_strncpy_s_srcbos_single_report :
  let '(r, _, tr) := exec (strncpy_s cfg_default 1000 16 2000 10 BOS_UNKNOWN 4) (fun _ => 97) in handlers tr = [(HStr, EOVERFLOW)] /\ r = EOVERFLOW.
Proof. vm_compute. split; reflexivity. Qed.
Theorem C05_strnlen_s : forall c str smax bos, hspec (fun hs r => (hs = [] \/ (r = 0 /\ exists code, code <> 0 /\ hs = [(HStr, code)]))) [] (strnlen_s c str smax bos).
Proof. exact strnlen_s_hspec. Qed.
Print Assumptions C05_strnlen_s.
Theorem C05_memcpy_s : forall c d dmax s slen destbos srcbos, C05_holds HMem (memcpy_s c d dmax s slen destbos srcbos).
Proof. intros. apply C05_from_hspec. apply mem_copy_gen_hspec. intro X; vm_compute in X; discriminate X. Qed.
Print Assumptions C05_memcpy_s.
Theorem C05_memmove_s : forall c d dmax s slen destbos srcbos, C05_holds HMem (memmove_s c d dmax s slen destbos srcbos).
Proof. intros. apply C05_from_hspec. apply mem_copy_gen_hspec. intro X; vm_compute in X; discriminate X. Qed.
Print Assumptions C05_memmove_s.
Theorem C05_memcpy16_s : forall c d dmax s slen destbos srcbos, C05_holds HMem (memcpy16_s c d dmax s slen destbos srcbos).
Proof. intros. apply C05_from_hspec. apply mem_copy_gen_hspec. intro X; vm_compute in X; discriminate X. Qed.
Print Assumptions C05_memcpy16_s.
Theorem C05_memmove16_s : forall c d dmax s slen destbos srcbos, C05_holds HMem (memmove16_s c d dmax s slen destbos srcbos).
Proof. intros. apply C05_from_hspec. apply mem_copy_gen_hspec. intro X; vm_compute in X; discriminate X. Qed.
Print Assumptions C05_memmove16_s.
Theorem C05_memcpy32_s : forall c d dmax s slen destbos srcbos, C05_holds HMem (memcpy32_s c d dmax s slen destbos srcbos).
Proof. intros. apply C05_from_hspec. apply mem_copy_gen_hspec. intro X; vm_compute in X; discriminate X. Qed.
Print Assumptions C05_memcpy32_s.
Theorem C05_memmove32_s : forall c d dmax s slen destbos srcbos, C05_holds HMem (memmove32_s c d dmax s slen destbos srcbos).
Proof. intros. apply C05_from_hspec. apply mem_copy_gen_hspec. intro X; vm_compute in X; discriminate X. Qed.
Print Assumptions C05_memmove32_s.
Theorem C05_memset_s : forall c d dmax v n destbos, C05_holds HMem (memset_s c d dmax v n destbos).
Proof. intros. apply C05_from_hspec. exact (memset_s_hspec c d dmax v n destbos). Qed.
Print Assumptions C05_memset_s.
Theorem C05_memzero_s : forall c d len destbos, C05_holds HMem (memzero_s c d len destbos).
Proof. intros. apply C05_from_hspec. exact (memzerow_s_hspec c 1 d len destbos). Qed.
Print Assumptions C05_memzero_s.
Theorem C05_memzero16_s : forall c d len destbos, C05_holds HMem (memzero16_s c d len destbos).
Proof. intros. apply C05_from_hspec. exact (memzerow_s_hspec c 2 d len destbos). Qed.
Print Assumptions C05_memzero16_s.
Theorem C05_memzero32_s : forall c d len destbos, C05_holds HMem (memzero32_s c d len destbos).
Proof. intros. apply C05_from_hspec. exact (memzerow_s_hspec c 4 d len destbos). Qed.
Print Assumptions C05_memzero32_s.
(* a size above the RSIZE limit is rejected before dest or src is touched: the program is the bare report *)
Theorem C05_strcpy_s_rsize_untouched : forall c d dmax s, d <> 0 -> 0 < dmax -> rmax_str c < dmax ->
  strcpy_s c d dmax s BOS_UNKNOWN = fail_str ESLEMAX.
Proof. intros c d dmax s Hd H0 Hr. unfold strcpy_s, chk_dest_str.
  replace (d =? 0) with false by (symmetry; apply Z.eqb_neq; lia).
  replace (dmax =? 0) with false by (symmetry; apply Z.eqb_neq; lia).
  rewrite Z.eqb_refl. replace (rmax_str c <? dmax) with true by (symmetry; apply Z.ltb_lt; lia). reflexivity. Qed.
Print Assumptions C05_strcpy_s_rsize_untouched.

Theorem C05_cfg_repo_wf : wf_cfg cfg_repo.
Proof. exact wf_cfg_repo. Qed.
Print Assumptions C05_cfg_repo_wf.
