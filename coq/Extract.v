(* Extract.v -- extraction of the executable models (ExtrOcamlBasic only). *)
From Coq Require Import List ZArith Bool.
From SC Require Import Base Cfg Comb ModStr ModMem ModTok ModTs ModSearch ModConv ModSort Dispatch HandlerModel FmtScan FmtEngine.
Require Extraction.
Require Import ExtrOcamlBasic.
Extraction Blacklist String List Nat.
Extraction "model.ml" run_call cfg_default cfg_noslack mkCfg run_hist h_init delegating_entry engine_walk has_n prescan_accepts vsnprintf_s_m vsprintf_s_m stream_m smoothsort_keys.
