(* ExtractUni.v -- extraction of the normalisation model instantiated with the library's graphs (C17) *)
From Coq Require Import List ZArith Bool.
From SC Require Import UniNorm UniCheck.
Require Extraction.
Require Import ExtrOcamlBasic.
Extraction Blacklist String List Nat.
Definition uni_nfd := nfd TI.
Definition uni_nfc := nfc TI.
Definition uni_nfc_ref := fun s => ref_compose TI (nfd TI s).
Extraction "unimodel.ml" uni_nfd uni_nfc uni_nfc_ref.
