(* PropStr.v -- consequences of the functional specifications, in the shape the
   properties C03, C04, C06, C07, C08 state them. *)
From Coq Require Import List ZArith Lia Bool.
From SC Require Import Base Wp Cfg Comb CombProofs CopySpec ModStr SpecStr.
Import ListNotations.
Local Open Scope Z_scope.

Section Outcome.
  Variables (c : cfg) (w od odmax : Z).
  Hypothesis Hw : 0 < w.
  Hypothesis Hod : 1 <= odmax.
  Notation elem m a := (load m w a).

  Lemma cleared_first m' : cleared c w m' od odmax -> elem m' od = 0.
  Proof.
    unfold cleared. destruct (null_slack c); auto. intros H. apply load_zero; [lia|].
    intros x Hx. apply H. pose proof (mul_ge_self w odmax Hw Hod). lia.
  Qed.
  Lemma cleared_all m' : null_slack c = true -> cleared c w m' od odmax ->
    forall a, od <= a < od + odmax * w -> m' a = 0.
  Proof. unfold cleared. intros ->. auto. Qed.

  (* outcome of a copy loop started at element index P of dest (P = 0 for the copy functions) *)
  Variables (n : nat) (P s g t : Z) (m : mem) (r : Z) (m' : mem).
  Hypothesis HP : 0 <= P.
  Hypothesis Hn : P + Z.of_nat n = odmax.
  Hypothesis Ht : 0 <= t.
  Hypothesis Hg : 0 <= g.
  Hypothesis Hpost : loop_post c w od odmax n (od + P * w) s g t m r m'.

  Lemma trichotomy : (t < Z.of_nat n /\ t < g) \/ (g <= t /\ g < Z.of_nat n) \/ (Z.of_nat n <= t /\ Z.of_nat n <= g).
  Proof. lia. Qed.

  (* C03 *)
  Lemma outcome_terminated : exists i, 0 <= i < odmax /\ elem m' (od + i * w) = 0.
  Proof.
    destruct Hpost as (HA & HB & HC). destruct trichotomy as [H|[H|H]].
    - destruct (HA H) as (_ & _ & Hz & _). exists (P + t). split; [lia|].
      replace (od + (P + t) * w) with (od + P * w + t * w) by lia. exact Hz.
    - destruct (HB H) as [_ Hc]. exists 0. split; [lia|]. rewrite Z.mul_0_l, Z.add_0_r. apply cleared_first; auto.
    - destruct (HC H) as [_ Hc]. exists 0. split; [lia|]. rewrite Z.mul_0_l, Z.add_0_r. apply cleared_first; auto.
  Qed.

  (* C04 *)
  Lemma outcome_failure_cleared : r <> EOK -> cleared c w m' od odmax.
  Proof.
    intros Hr. destruct Hpost as (HA & HB & HC). destruct trichotomy as [H|[H|H]].
    - destruct (HA H) as (E & _). contradiction.
    - apply (HB H). - apply (HC H).
  Qed.

  (* C06: success is exact and complete; no silent truncation *)
  Lemma outcome_success_exact : r = EOK ->
    t < Z.of_nat n /\ t < g /\
    (forall j, 0 <= j < t -> elem m' (od + (P + j) * w) = elem m (s + j * w)) /\
    elem m' (od + (P + t) * w) = 0 /\ (forall a, a < od + P * w -> m' a = m a).
  Proof.
    intros Hr. destruct Hpost as (HA & HB & HC). destruct trichotomy as [H|[H|H]].
    - destruct (HA H) as (_ & Hcp & Hz & Hlow & _). repeat split; try lia.
      + intros j Hj. replace (od + (P + j) * w) with (od + P * w + j * w) by lia. apply Hcp; auto.
      + replace (od + (P + t) * w) with (od + P * w + t * w) by lia. exact Hz.
      + exact Hlow.
    - destruct (HB H) as [E _]. rewrite Hr in E. discriminate.
    - destruct (HC H) as [E _]. rewrite Hr in E. discriminate.
  Qed.
  Lemma outcome_no_truncation : Z.of_nat n <= t -> r <> EOK.
  Proof.
    intros Hnt Hr. destruct Hpost as (HA & HB & HC). destruct trichotomy as [H|[H|H]]; [lia| |].
    - destruct (HB H) as [E _]. rewrite Hr in E. discriminate.
    - destruct (HC H) as [E _]. rewrite Hr in E. discriminate.
  Qed.

  (* C07: the three placement classes, in terms of the element distance g *)
  Lemma outcome_overlap_detected : g <= t -> g < Z.of_nat n -> r = ESOVRLP /\ cleared c w m' od odmax.
  Proof. intros H1 H2. destruct Hpost as (_ & HB & _). apply HB; lia. Qed.
  Lemma outcome_disjoint_normal : t < g -> t < Z.of_nat n -> r = EOK.
  Proof. intros H1 H2. destruct Hpost as (HA & _). apply HA; lia. Qed.
  Lemma outcome_disjoint_nospace : Z.of_nat n <= t -> Z.of_nat n <= g -> r = ESNOSPC /\ cleared c w m' od odmax.
  Proof. intros H1 H2. destruct Hpost as (_ & _ & HC). apply HC; lia. Qed.

  (* C08 *)
  Lemma outcome_slack_zero : r = EOK -> null_slack c = true ->
    forall a, od + (P + t) * w <= a < od + odmax * w -> m' a = 0.
  Proof.
    intros Hr Hs a Ha. destruct Hpost as (HA & HB & HC). destruct trichotomy as [H|[H|H]].
    - destruct (HA H) as (_ & _ & _ & _ & Hsl). rewrite Hs in Hsl. apply Hsl. nia.
    - destruct (HB H) as [E _]. rewrite Hr in E. discriminate.
    - destruct (HC H) as [E _]. rewrite Hr in E. discriminate.
  Qed.
  Lemma outcome_noslack_tail : r = EOK -> null_slack c = false ->
    forall a, od + (P + t + 1) * w <= a -> m' a = m a.
  Proof.
    intros Hr Hs a Ha. destruct Hpost as (HA & HB & HC). destruct trichotomy as [H|[H|H]].
    - destruct (HA H) as (_ & _ & _ & _ & Hsl). rewrite Hs in Hsl. apply Hsl. nia.
    - destruct (HB H) as [E _]. rewrite Hr in E. discriminate.
    - destruct (HC H) as [E _]. rewrite Hr in E. discriminate.
  Qed.
End Outcome.

(* ------------------------------------------------------------------ statement shapes *)
Definition terminated (w : Z) (m' : mem) (d dmax : Z) : Prop :=
  exists i, 0 <= i < dmax /\ load m' w (d + i * w) = 0.

(* C06 for a result placed at element index P of dest *)
Definition exact_result (w : Z) (m m' : mem) (d dmax s P t : Z) : Prop :=
  P + t < dmax /\
  (forall j, 0 <= j < t -> load m' w (d + (P + j) * w) = load m w (s + j * w)) /\
  load m' w (d + (P + t) * w) = 0 /\ (forall a, a < d + P * w -> m' a = m a).

Definition slack_clean (c : cfg) (w : Z) (m m' : mem) (d dmax e : Z) : Prop :=
  if null_slack c then forall a, d + e * w <= a < d + dmax * w -> m' a = 0
  else forall a, d + (e + 1) * w <= a -> m' a = m a.

Section CopyOutcome.
  Variables (c : cfg) (w d dmax s g t : Z) (m : mem) (r : Z) (m' : mem).
  Hypothesis Hw : 0 < w.
  Hypothesis Hd : 1 <= dmax.
  Hypothesis Ht : 0 <= t.
  Hypothesis Ho : copy_outcome c w d dmax s g t m r m'.

  Let Ho' : loop_post c w d dmax (Z.to_nat dmax) (d + 0 * w) s g t m r m'.
  Proof. unfold copy_outcome in Ho. rewrite Z.mul_0_l, Z.add_0_r. exact Ho. Qed.
  Let Hn : 0 + Z.of_nat (Z.to_nat dmax) = dmax. Proof. lia. Qed.
  Let N := Z.to_nat dmax.

  Lemma copy_C03 : terminated w m' d dmax.
  Proof. exact (outcome_terminated c w d dmax Hw Hd N 0 s g t m r m' (Z.le_refl 0) Hn Ht Ho'). Qed.
  Lemma copy_C04 : r <> EOK -> cleared c w m' d dmax.
  Proof. exact (outcome_failure_cleared c w d dmax N 0 s g t m r m' Ho'). Qed.
  Lemma copy_C06 : (r = EOK -> exact_result w m m' d dmax s 0 t /\ t < g) /\ (dmax <= t -> r <> EOK).
  Proof.
    split.
    - intros Hr. destruct (outcome_success_exact c w d dmax N 0 s g t m r m' Ho' Hr) as (A & B & C & D & E).
      split; [|lia]. unfold exact_result. repeat split; auto; lia.
    - intros H. apply (outcome_no_truncation c w d dmax N 0 s g t m r m' Ho'). lia.
  Qed.
  Lemma copy_C07 :
    (g <= t -> g < dmax -> r = ESOVRLP /\ cleared c w m' d dmax) /\
    (t < g -> t < dmax -> r = EOK /\ exact_result w m m' d dmax s 0 t) /\
    (dmax <= t -> dmax <= g -> r = ESNOSPC /\ cleared c w m' d dmax).
  Proof.
    split; [|split].
    - intros H1 H2. apply (outcome_overlap_detected c w d dmax N 0 s g t m r m' Ho'); lia.
    - intros H1 H2. assert (Hr : r = EOK) by (apply (outcome_disjoint_normal c w d dmax N 0 s g t m r m' Ho'); lia).
      split; [exact Hr|]. apply copy_C06. exact Hr.
    - intros H1 H2. apply (outcome_disjoint_nospace c w d dmax N 0 s g t m r m' Ho'); lia.
  Qed.
  Lemma copy_C08 : r = EOK -> slack_clean c w m m' d dmax t.
  Proof.
    intros Hr. unfold slack_clean. destruct (null_slack c) eqn:E.
    - intros a Ha. apply (outcome_slack_zero c w d dmax Hd N 0 s g t m r m' (Z.le_refl 0) Hn Ht Ho' Hr E). lia.
    - intros a Ha. apply (outcome_noslack_tail c w d dmax N 0 s g t m r m' Ho' Hr E). lia.
  Qed.
End CopyOutcome.

Section CatOutcome.
  Variables (c : cfg) (d dmax s g P t : Z) (m : mem) (r : Z) (m' : mem).
  Hypothesis Hd : 1 <= dmax.
  Hypothesis HP : 0 <= P.
  Hypothesis HPd : P < dmax.
  Hypothesis Ht : 0 <= t.
  Hypothesis Hg : g = Z.abs (s - d).
  Hypothesis Ho : cat_outcome c d dmax s g P t m r m'.
  Let N := (Z.to_nat dmax - Z.to_nat P)%nat.
  Let Hn : P + Z.of_nat N = dmax. Proof. unfold N. lia. Qed.
  Let Hw : 0 < 1. Proof. lia. Qed.

  (* the distance that counts: forward, the dest string already consumed P of it *)
  Definition cat_gap : Z := if d <? s then g - P else g.

  Lemma cat_cases :
    (d < s /\ g <= P /\ r = ESOVRLP /\ cleared c 1 m' d dmax) \/
    (0 <= cat_gap /\ loop_post c 1 d dmax N (d + P * 1) s cat_gap t m r m').
  Proof.
    unfold cat_outcome, cat_gap, N in *. destruct (d <? s) eqn:E.
    - apply Z.ltb_lt in E. destruct Ho as [H1 H2]. destruct (Z_le_dec g P) as [Hgp|Hgp].
      + left. destruct (H1 Hgp). auto.
      + right. split; [lia|]. rewrite Z.mul_1_r. apply H2. lia.
    - right. split; [lia|]. rewrite Z.mul_1_r. exact Ho.
  Qed.

  Lemma cat_C03 : terminated 1 m' d dmax.
  Proof.
    destruct cat_cases as [(_ & _ & _ & Hc)|[Hcg Hl]].
    - exists 0. split; [lia|]. rewrite Z.mul_0_l, Z.add_0_r. apply (cleared_first c 1 d dmax Hw Hd m' Hc).
    - exact (outcome_terminated c 1 d dmax Hw Hd N P s cat_gap t m r m' HP Hn Ht Hl).
  Qed.
  Lemma cat_C04 : r <> EOK -> cleared c 1 m' d dmax.
  Proof.
    intros Hr. destruct cat_cases as [(_ & _ & _ & Hc)|[Hcg Hl]]; [exact Hc|].
    exact (outcome_failure_cleared c 1 d dmax N P s cat_gap t m r m' Hl Hr).
  Qed.
  Lemma cat_C06 : (r = EOK -> exact_result 1 m m' d dmax s P t /\ t < cat_gap) /\ (dmax - P <= t -> r <> EOK).
  Proof.
    split.
    - intros Hr. destruct cat_cases as [(_ & _ & E & _)|[Hcg Hl]]; [rewrite Hr in E; discriminate|].
      destruct (outcome_success_exact c 1 d dmax N P s cat_gap t m r m' Hl Hr) as (A & B & C & D & E).
      split; [|lia]. unfold exact_result. repeat split; auto; lia.
    - intros H Hr. destruct cat_cases as [(_ & _ & E & _)|[Hcg Hl]]; [rewrite Hr in E; discriminate|].
      apply (outcome_no_truncation c 1 d dmax N P s cat_gap t m r m' Hl); [lia|exact Hr].
  Qed.
  Lemma cat_C07 :
    (cat_gap <= t -> cat_gap < dmax - P -> r = ESOVRLP /\ cleared c 1 m' d dmax) /\
    (t < cat_gap -> t < dmax - P -> r = EOK /\ exact_result 1 m m' d dmax s P t) /\
    (dmax - P <= t -> dmax - P <= cat_gap -> r = ESNOSPC /\ cleared c 1 m' d dmax).
  Proof.
    split; [|split].
    - intros H1 H2. destruct cat_cases as [(_ & _ & E & Hc)|[Hcg Hl]]; [auto|].
      apply (outcome_overlap_detected c 1 d dmax N P s cat_gap t m r m' Hl); lia.
    - intros H1 H2. destruct cat_cases as [(E & Hgp & _)|[Hcg Hl]].
      { exfalso. unfold cat_gap in H1. replace (d <? s) with true in H1 by (symmetry; apply Z.ltb_lt; lia). lia. }
      assert (Hr : r = EOK) by (apply (outcome_disjoint_normal c 1 d dmax N P s cat_gap t m r m' Hl); lia).
      split; [exact Hr|]. apply cat_C06. exact Hr.
    - intros H1 H2. destruct cat_cases as [(E & Hgp & _)|[Hcg Hl]].
      { exfalso. unfold cat_gap in H2. replace (d <? s) with true in H2 by (symmetry; apply Z.ltb_lt; lia). lia. }
      apply (outcome_disjoint_nospace c 1 d dmax N P s cat_gap t m r m' Hl); lia.
  Qed.
  Lemma cat_C08 : r = EOK -> slack_clean c 1 m m' d dmax (P + t).
  Proof.
    intros Hr. destruct cat_cases as [(_ & _ & E & _)|[Hcg Hl]]; [rewrite Hr in E; discriminate|].
    unfold slack_clean. destruct (null_slack c) eqn:E.
    - intros a Ha. apply (outcome_slack_zero c 1 d dmax Hd N P s cat_gap t m r m' HP Hn Ht Hl Hr E). lia.
    - intros a Ha. apply (outcome_noslack_tail c 1 d dmax N P s cat_gap t m r m' Hl Hr E). lia.
  Qed.
End CatOutcome.
