(* ProofsTok.v -- footprint and handler lemmas for the tokeniser models (C14, C01, C05). *)
From Coq Require Import List ZArith Lia Bool.
From SC Require Import Base Wp Cfg Comb CombProofs ModTok.
Import ListNotations.
Local Open Scope Z_scope.
Local Open Scope prog_scope.

Section TokProofs.
  Variables (c : cfg) (w : Z) (wide : bool) (dmaxp ptr delim : Z).
  Hypothesis Hw : 0 < w.

  (* the string may be written from d up to and including the element at index n (the ESUNTERM exits store there: known finding) *)
  Definition tokP (d : Z) (n : nat) : Z -> Prop :=
    fun a => ext ptr 8 a \/ ext dmaxp 8 a \/ ext d ((Z.of_nat n + 1) * w) a.

  Lemma delim_scan_writes n : forall pt ch any, writes_in nowhere (delim_scan w n pt ch any).
  Proof. induction n as [|n IH]; intros pt ch any; cbn; intros d; destruct (d =? 0); cbn; auto. destruct (ch =? d); cbn; auto. Qed.
  Lemma delim_scan_noh n : forall pt ch any, no_handler (delim_scan w n pt ch any).
  Proof. induction n as [|n IH]; intros pt ch any; cbn; intros d; destruct (d =? 0); cbn; auto. destruct (ch =? d); cbn; auto. Qed.

  Lemma tok_abort_writes d n : writes_in (tokP d n) (tok_abort w dmaxp ptr d).
  Proof.
    unfold tok_abort. cbn. repeat split; intros x Hx; unfold tokP, ext in *; try lia; try (right; right; nia).
  Qed.

  Lemma tokend_writes n : forall d tok, writes_in (tokP d n) (tokend c w dmaxp ptr delim n d tok).
  Proof.
    induction n as [|n IH]; intros d tok; cbn [tokend writes_in]; intros ch.
    - destruct (ch =? 0); [cbn; repeat split; intros x Hx; unfold tokP, ext in *; lia|]. apply tok_abort_writes.
    - destruct (ch =? 0); [cbn; repeat split; intros x Hx; unfold tokP, ext in *; lia|].
      apply writes_in_bind. { eapply writes_in_weaken; [|apply delim_scan_writes]. intros a []. }
      intros r. destruct r as [|b|].
      + cbn. repeat split; intros x Hx; unfold tokP, ext in *; try lia; try (right; right; nia).
      + eapply writes_in_weaken; [|apply IH]. intros a. unfold tokP, ext. rewrite Nat2Z.inj_succ. intros [H|[H|H]]; auto. right. right. nia.
      + apply tok_abort_writes.
  Qed.

  Lemma tokskip_writes n : forall d, writes_in (tokP d n) (tokskip c w wide dmaxp ptr delim n d).
  Proof.
    induction n as [|n IH]; intros d; cbn [tokskip writes_in]; intros ch.
    - destruct (ch =? 0); [cbn; repeat split; intros x Hx; unfold tokP, ext in *; lia|].
      destruct wide; [apply tok_abort_writes|]. cbn. repeat split; intros x Hx; unfold tokP, ext in *; lia.
    - destruct (ch =? 0); [cbn; repeat split; intros x Hx; unfold tokP, ext in *; lia|].
      apply writes_in_bind. { eapply writes_in_weaken; [|apply delim_scan_writes]. intros a []. }
      assert (Hsub : forall a, tokP (d + w) n a -> tokP d (S n) a).
      { intros a. unfold tokP, ext. rewrite Nat2Z.inj_succ. intros [H|[H|H]]; auto. right. right. nia. }
      intros r. destruct r as [|b|].
      + eapply writes_in_weaken; [exact Hsub|apply IH].
      + destruct b; (eapply writes_in_weaken; [exact Hsub|]); [apply tokend_writes|apply IH].
      + apply tok_abort_writes.
  Qed.

  (* every call reports at most once, and returns NULL when it reports *)
  Definition tok_report (hs : list (hkind * Z)) (r : Z) : Prop :=
    hs = [] \/ (r = 0 /\ exists code, code <> 0 /\ hs = [(HStr, code)]).
  Ltac cne := let H := fresh in intro H; vm_compute in H; discriminate H.
  Lemma tok_abort_h d : hspec tok_report [] (tok_abort w dmaxp ptr d).
  Proof. cbn. right. split; auto. exists ESUNTERM. split; [cne|reflexivity]. Qed.
  Lemma tokend_h n : forall d tok, hspec tok_report [] (tokend c w dmaxp ptr delim n d tok).
  Proof.
    induction n as [|n IH]; intros d tok; cbn [tokend hspec]; intros ch; (destruct (ch =? 0); [cbn; left; reflexivity|]).
    - apply tok_abort_h.
    - apply hspec_bind. apply hspec_no_handler; [apply delim_scan_noh|]. intros r. destruct r as [|b|]; [cbn; left; reflexivity|apply IH|apply tok_abort_h].
  Qed.
  Lemma tokskip_h n : forall d, hspec tok_report [] (tokskip c w wide dmaxp ptr delim n d).
  Proof.
    induction n as [|n IH]; intros d; cbn [tokskip hspec]; intros ch; (destruct (ch =? 0); [cbn; left; reflexivity|]).
    - destruct wide; [apply tok_abort_h|]. cbn. right. split; auto. exists ESUNTERM. split; [cne|reflexivity].
    - apply hspec_bind. apply hspec_no_handler; [apply delim_scan_noh|]. intros r. destruct r as [|b|]; [apply IH|destruct b; [apply tokend_h|apply IH]|apply tok_abort_h].
  Qed.
End TokProofs.

Ltac cne := let H := fresh in intro H; vm_compute in H; discriminate H.
Lemma strtok_s_report c dest dmaxp delim ptr destbos : hspec tok_report [] (strtok_s c dest dmaxp delim ptr destbos).
Proof.
  assert (R : forall code, code <> 0 -> hspec tok_report [] (Handler HStr code (Ret 0))).
  { intros code Hc. cbn. right. split; auto. exists code. auto. }
  unfold strtok_s. destruct (dmaxp =? 0); [apply R; cne|]. cbn [hspec]. intros dm.
  destruct (dm =? 0); [apply R; cne|]. destruct (delim =? 0); [apply R; cne|]. destruct (ptr =? 0); [apply R; cne|].
  assert (G : forall d, hspec tok_report []
    (if (destbos =? BOS_UNKNOWN) || (dest =? 0)
     then if rmax_str c <? dm then Handler HStr ESLEMAX (Ret 0) else tokskip c 1 false dmaxp ptr delim (Z.to_nat dm) d
     else if destbos <? dm then Handler HStr EOVERFLOW (Ret 0) else tokskip c 1 false dmaxp ptr delim (Z.to_nat dm) d)).
  { intros d. destruct (_ || _); [destruct (rmax_str c <? dm)|destruct (destbos <? dm)]; try (apply R; cne); apply tokskip_h. }
  destruct (dest =? 0); [|apply G]. cbn [hspec]. intros d. destruct (d =? 0); [apply R; cne|apply G].
Qed.
Lemma wcstok_s_report c dest dmaxp delim ptr destbos : hspec tok_report [] (wcstok_s c dest dmaxp delim ptr destbos).
Proof.
  assert (R : forall code, code <> 0 -> hspec tok_report [] (Handler HStr code (Ret 0))).
  { intros code Hc. cbn. right. split; auto. exists code. auto. }
  unfold wcstok_s. destruct (dmaxp =? 0); [apply R; cne|]. cbn [hspec]. intros dm.
  destruct (dm =? 0); [apply R; cne|]. destruct (rmax_wstr c <? dm); [apply R; cne|]. destruct (delim =? 0); [apply R; cne|]. destruct (ptr =? 0); [apply R; cne|].
  assert (G : forall d, hspec tok_report []
    (if (destbos =? BOS_UNKNOWN) || (dest =? 0) then tokskip c (wchar_w c) true dmaxp ptr delim (Z.to_nat dm) d
     else if destbos <? dm * wchar_w c then Handler HStr EOVERFLOW (Ret 0) else tokskip c (wchar_w c) true dmaxp ptr delim (Z.to_nat dm) d)).
  { intros d. destruct (_ || _); [|destruct (_ <? _)]; try (apply R; cne); apply tokskip_h. }
  destruct (dest =? 0); [|apply G]. cbn [hspec]. intros d. destruct (d =? 0); [apply R; cne|apply G].
Qed.
