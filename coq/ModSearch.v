(* ModSearch.v -- C16: bsearch_s.  An abstract model of the halving loop over a comparator oracle, and
   the program-level model used by the drivers (comparator = bytewise comparison of the first
   min(size,4) bytes, the one harness/impl_driver.c passes). *)
From Coq Require Import List ZArith Lia Bool.
From SC Require Import Base Cfg Comb.
Import ListNotations.
Local Open Scope Z_scope.
Local Open Scope prog_scope.

(* cmp j = compar(key, &base[j], ctx); fuel = nmemb *)
Fixpoint bsearch_abs (fuel : nat) (cmp : Z -> Z) (base nmemb : Z) : option Z :=
  match fuel with
  | O => None
  | S f =>
      if nmemb <=? 0 then None
      else let mid := base + nmemb / 2 in
           let s := cmp mid in
           if s =? 0 then Some mid
           else if nmemb =? 1 then None
           else if s <? 0 then bsearch_abs f cmp base (nmemb / 2)
           else bsearch_abs f cmp mid (nmemb - nmemb / 2)
  end.

(* bytewise comparison, as memcmp(a, b, k) *)
Fixpoint memcmp_prog (k : nat) (a b : Z) : prog Z :=
  match k with
  | O => Ret 0
  | S k' => Load 1 a (fun x => Load 1 b (fun y => if x <? y then Ret (-1) else if y <? x then Ret 1 else memcmp_prog k' (a + 1) (b + 1)))
  end.
Fixpoint bsearch_loop (fuel : nat) (key base nmemb size : Z) : prog Z :=
  match fuel with
  | O => Ret 0
  | S f =>
      if nmemb <=? 0 then Ret 0
      else let ptry := base + size * (nmemb / 2) in
           s <- memcmp_prog (Z.to_nat (Z.min size 4)) key ptry ;;
           if s =? 0 then Ret ptry
           else if nmemb =? 1 then Ret 0
           else if s <? 0 then bsearch_loop f key base (nmemb / 2) size
           else bsearch_loop f key ptry (nmemb - nmemb / 2) size
  end.
(* _bsearch_s_chk(key, base, nmemb, size, compar, ctx, basebos) with a non-null comparator *)
Definition bsearch_s (c : cfg) (key base nmemb size basebos : Z) : prog Z :=
  if negb (nmemb =? 0) && ((key =? 0) || (base =? 0)) then Handler HMem ESNULLP (Ret 0)
  else if (if basebos =? BOS_UNKNOWN then (rmax_mem c <? nmemb) || (rmax_mem c <? size) else basebos <? nmemb * size)
  then Handler HMem (if basebos =? BOS_UNKNOWN then ESLEMAX else ESNOSPC) (Ret 0)
  else bsearch_loop (Z.to_nat nmemb) key base nmemb size.
