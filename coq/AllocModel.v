(* AllocModel.v -- C20: allocation skeletons of the allocating library paths (which requests are made,
   what is checked, what is freed on which exit), the trace predicate "no NULL use, no leak, failure
   reported", and its proof / refutation for every failure oracle. *)
From Coq Require Import List ZArith Lia Bool.
From SC Require Import Base Cfg.
Import ListNotations.
Local Open Scope Z_scope.
Local Open Scope prog_scope.

(* ---------- what a trace must satisfy ---------- *)
Definition null_page (a : Z) : bool := (0 <=? a) && (a <? 4096).
Definition null_use (e : ev) : bool :=
  match e with ERead a n | EWrite a n => null_page a && (0 <? n) | _ => false end.
Fixpoint live_after (tr : list ev) (live : list Z) : list Z :=
  match tr with
  | [] => live
  | EAlloc _ r :: t => live_after t (if r =? 0 then live else r :: live)
  | EFree p :: t => live_after t (if p =? 0 then live else remove Z.eq_dec p live)
  | _ :: t => live_after t live
  end.
Definition some_alloc_failed (tr : list ev) : bool := existsb (fun e => match e with EAlloc _ 0 => true | _ => false end) tr.
Definition reported (tr : list ev) : bool := existsb is_handler tr.
(* result r is a failure indication: negative or a positive error code *)
Definition alloc_ok (r : Z) (tr : list ev) : bool :=
  negb (existsb null_use tr)
  && (match live_after tr [] with [] => true | _ => false end)
  && (if some_alloc_failed tr then negb (r =? 0) && reported tr else true).
Definition C20_holds (p : prog Z) : Prop :=
  forall fail m, let '(r, st) := run fail p (w0 m) in alloc_ok r (rev (wtr st)) = true.

(* ---------- skeletons ---------- *)
(* engine, %ls: p = malloc(l+1); if (!p) report, return -1; err = wcstombs_s(p); if (err) report, return err [p not freed];
   if (no space) { report; free(p); return } ; output loop (may fail: free(op), return rc); free(op) *)
Definition sk_ls (l : Z) (conv_err nospace out_err : bool) : prog Z :=
  Alloc (l + 1) (fun p =>
    if p =? 0 then Handler HStr 1 (Ret (-1))
    else Fill p (l + 1) 0 (                                   (* wcstombs_s writes into p *)
      if conv_err then Handler HStr EILSEQ (Ret EILSEQ)      (* returns without free(p) *)
      else if nospace then Handler HStr ESNOSPC (Free p (Ret (- ESNOSPC)))
      else Load 1 p (fun _ => if out_err then Free p (Ret (-1)) else Free p (Ret l)))).
(* the same with the missing free(p) added: what the repaired code would be *)
Definition sk_ls_repaired (l : Z) (conv_err nospace out_err : bool) : prog Z :=
  Alloc (l + 1) (fun p =>
    if p =? 0 then Handler HStr 1 (Ret (-1))
    else Fill p (l + 1) 0 (
      if conv_err then Handler HStr EILSEQ (Free p (Ret EILSEQ))
      else if nospace then Handler HStr ESNOSPC (Free p (Ret (- ESNOSPC)))
      else Load 1 p (fun _ => if out_err then Free p (Ret (-1)) else Free p (Ret l)))).
(* engine, %Lf / %Le / %Lg / %La / %a followed by more format text: s = malloc(off+1); memcpy(s, ...); s[off] = 0; ...; free(s) *)
Definition sk_longdouble (off src : Z) : prog Z :=
  Alloc (off + 1) (fun s => Move s src off (Store 1 (s + off) 0 (Load 1 s (fun _ => Free s (Ret off))))).
(* wide printf family, no-space probe for dmax >= 512: tmp = malloc(dmax * 4); vswprintf(tmp, ...); free(tmp); report ESNOSPC *)
Definition sk_wprobe (dmax : Z) : prog Z :=
  Alloc (dmax * 4) (fun tmp => Fill tmp (dmax * 4) 0 (Free tmp (Handler HStr ESNOSPC (Ret (- ESNOSPC))))).
(* wcsicmp_s: the two fold buffers; wcsfc_s(NULL, ...) reports ESNULLP before any store *)
Definition fold_into (d sz : Z) (err : bool) : prog Z :=
  if d =? 0 then Handler HStr ESNULLP (Ret ESNULLP)
  else Fill d (2 * sz) 0 (if err then Handler HStr ESNOSPC (Ret ESNOSPC) else Ret EOK).
Definition sk_wcsicmp (sz1 sz2 : Z) (e1 e2 : bool) : prog Z :=
  Alloc (2 * sz1) (fun d1 =>
    rc1 <- fold_into d1 sz1 e1 ;;
    if negb (rc1 =? 0) then Free d1 (Ret rc1)
    else Alloc (2 * sz2) (fun d2 =>
      rc2 <- fold_into d2 sz2 e2 ;;
      if negb (rc2 =? 0) then Free d1 (Free d2 (Ret rc2))
      else Load 4 d1 (fun _ => Load 4 d2 (fun _ => Free d1 (Free d2 (Ret EOK)))))).

(* ---------- theorems ---------- *)
Local Opaque fill store move load.
(* case analysis on the failure oracle at every request met; the trace predicate never forces the memory *)
Ltac alloc_cases := intros fail m; repeat (cbn; match goal with |- context [fail ?k] => destruct (fail k) end); cbn; reflexivity.

Theorem sk_wcsicmp_ok : forall sz1 sz2 e1 e2, C20_holds (sk_wcsicmp sz1 sz2 e1 e2).
Proof. intros sz1 sz2 e1 e2. unfold C20_holds, sk_wcsicmp, fold_into. destruct e1, e2; alloc_cases. Qed.
Theorem sk_ls_repaired_ok : forall l c n o, C20_holds (sk_ls_repaired l c n o).
Proof. intros l c n o. unfold C20_holds, sk_ls_repaired. destruct c, n, o; alloc_cases. Qed.
(* the %ls path as written: fine unless the conversion fails (then the block leaks) *)
Theorem sk_ls_except : forall l n o, C20_holds (sk_ls l false n o).
Proof. intros l n o. unfold C20_holds, sk_ls. destruct n, o; alloc_cases. Qed.
Theorem sk_ls_leak_refuted : exists l n o, ~ C20_holds (sk_ls l true n o).
Proof. exists 3, false, false. intros H. specialize (H nofail (fun _ => 0)). cbn in H. discriminate. Qed.
(* unchecked malloc: a failing request is dereferenced *)
Theorem sk_longdouble_refuted : exists off src, ~ C20_holds (sk_longdouble off src).
Proof. exists 3, 5000. intros H. specialize (H (fun _ => true) (fun _ => 0)). cbn in H. discriminate. Qed.
(* when no request fails the path is fine (concrete instance) *)
Example sk_longdouble_nofail_ok : let '(r, st) := run nofail (sk_longdouble 3 5000) (w0 (fun _ => 0)) in alloc_ok r (rev (wtr st)) = true.
Proof. cbn. reflexivity. Qed.
Theorem sk_wprobe_refuted : exists dmax, ~ C20_holds (sk_wprobe dmax).
Proof. exists 600. intros H. specialize (H (fun _ => true) (fun _ => 0)). cbn in H. discriminate. Qed.
Example sk_wprobe_nofail_ok : let '(r, st) := run nofail (sk_wprobe 600) (w0 (fun _ => 0)) in alloc_ok r (rev (wtr st)) = true.
Proof. cbn. reflexivity. Qed.
