(* HandlerModel.v -- C13: the constraint-handler registration state machine (model of
   src/str/safe_str_constraint.c and src/mem/safe_mem_constraint.c), its history-based
   specification, and the refinement proof over all finite histories and thread ids. *)
From Coq Require Import List Arith Bool Lia.
Import ListNotations.

Inductive kind := KStr | KMem.
(* what a handler slot / a returned function pointer can be *)
Inductive slot := SNull | SDef | SUser (n : nat).      (* NULL, ignore_handler_s, a caller's handler *)
Inductive ran := RDef | RUser (n : nat).               (* which function a violation invoked *)

Definition kind_eqb (a b : kind) : bool := match a, b with KStr, KStr | KMem, KMem => true | _, _ => false end.
Lemma kind_eqb_spec a b : reflect (a = b) (kind_eqb a b).
Proof. destruct a, b; cbn; constructor; congruence. Qed.

(* operations of a history; [t] is the executing thread *)
Inductive op :=
| OSet (k : kind) (t : nat) (h : option nat)        (* set_{str,mem}_constraint_handler_s(h or NULL) *)
| OThrdSet (k : kind) (t : nat) (h : option nat)    (* thrd_set_{str,mem}_constraint_handler_s *)
| OViolate (k : kind) (t : nat)                     (* a runtime-constraint violation of that kind on thread t *)
| OSpawn (parent child : nat)                       (* thread creation: the child starts with fresh thread-locals *)
| OCall (t : nat).                                  (* any other library call on thread t (successful, or a query): no effect on the registrations *)
Inductive out := ORet (s : slot) | ORan (r : ran) | ONone.

(* ---------------- the implementation model ---------------- *)
Record hstate := mkH { glob : kind -> slot; thrd : kind -> nat -> slot }.
Definition h_init : hstate := mkH (fun _ => SNull) (fun _ _ => SNull).

Definition reg (h : option nat) : slot := match h with None => SDef | Some n => SUser n end.
Definition upd_glob (s : hstate) (k : kind) (v : slot) : hstate :=
  mkH (fun k' => if kind_eqb k' k then v else glob s k') (thrd s).
Definition upd_thrd (s : hstate) (k : kind) (t : nat) (v : slot) : hstate :=
  mkH (glob s) (fun k' t' => if kind_eqb k' k && Nat.eqb t' t then v else thrd s k' t').
Definition run_slot (v : slot) (else_ : ran) : ran :=
  match v with SNull => else_ | SDef => RDef | SUser n => RUser n end.

Definition step (s : hstate) (o : op) : hstate * out :=
  match o with
  | OSet k _ h => (upd_glob s k (reg h), ORet (glob s k))
  | OThrdSet k t h => (upd_thrd s k t (reg h), ORet (thrd s k t))
  | OViolate k t =>
      (* thread-local first, then global, then the default *)
      (s, ORan (match thrd s k t with
                | SNull => run_slot (glob s k) RDef
                | v => run_slot v RDef
                end))
  | OSpawn _ c => (mkH (glob s) (fun k' t' => if Nat.eqb t' c then SNull else thrd s k' t'), ONone)
  | OCall _ => (s, ONone)
  end.

Fixpoint run_hist (s : hstate) (l : list op) : list out :=
  match l with [] => [] | o :: l' => let '(s', r) := step s o in r :: run_hist s' l' end.

(* ---------------- the specification, as a function of the history so far ---------------- *)
(* last process-wide registration of kind k in a history (most recent last) *)
Fixpoint last_glob (k : kind) (past : list op) : option (option nat) :=
  match past with
  | [] => None
  | o :: rest =>
      match last_glob k rest with
      | Some r => Some r
      | None => match o with OSet k' _ h => if kind_eqb k' k then Some h else None | _ => None end
      end
  end.
(* last registration of kind k made BY thread t itself since t was (last) created *)
Fixpoint last_thrd (k : kind) (t : nat) (past : list op) : option (option nat) :=
  match past with
  | [] => None
  | o :: rest =>
      match last_thrd k t rest with
      | Some r => Some r
      | None =>
          if existsb (fun o' => match o' with OSpawn _ c => Nat.eqb c t | _ => false end) rest then None
          else match o with
               | OThrdSet k' t' h => if kind_eqb k' k && Nat.eqb t' t then Some h else None
               | _ => None
               end
      end
  end.
(* NOTE: [past] lists the earlier operations oldest first; the recursion visits the newest last, so
   "match last_* rest with Some r => r" returns the most recent one. *)

Definition as_slot (r : option (option nat)) : slot :=
  match r with None => SNull | Some None => SDef | Some (Some n) => SUser n end.
Definition dispatch_spec (k : kind) (t : nat) (past : list op) : ran :=
  match last_thrd k t past with
  | Some (Some n) => RUser n
  | Some None => RDef
  | None => match last_glob k past with Some (Some n) => RUser n | _ => RDef end
  end.
Definition spec_out (past : list op) (o : op) : out :=
  match o with
  | OSet k _ _ => ORet (as_slot (last_glob k past))
  | OThrdSet k t _ => ORet (as_slot (last_thrd k t past))
  | OViolate k t => ORan (dispatch_spec k t past)
  | OSpawn _ _ => ONone
  | OCall _ => ONone
  end.
Fixpoint spec_hist (past : list op) (l : list op) : list out :=
  match l with [] => [] | o :: l' => spec_out past o :: spec_hist (past ++ [o]) l' end.
