(* Properties_C02.v -- property theorems only (placeholder until the proofs land). *)
From SC Require Import Base Cfg Comb ModStr ModMem.
From SC.Gen Require Import Consts.
Theorem C02_cfg_repo_wf : wf_cfg cfg_repo.
Proof. exact wf_cfg_repo. Qed.
Print Assumptions C02_cfg_repo_wf.
