(* Properties_C02.v -- C02: no read outside what the caller declared readable
   Only theorem statements, each closed by [exact <lemma>], with Print Assumptions beneath. *)
From Coq Require Import List ZArith Lia Bool.
From SC Require Import Base Wp Cfg Comb CombProofs CopySpec ModStr ModMem ModExt ProofsStr ProofsMem SpecStr SpecMem SpecExt PropStr FnProps PropDefs.
From SC.Gen Require Import Consts.
Import ListNotations.
Local Open Scope Z_scope.

(* link from the wp statements below to executions: for every allocation-failure oracle,
   the result and final memory of [run] satisfy the postcondition *)
Theorem C02_wp_sound : forall (A : Type) (fail : nat -> bool) (p : prog A) st Q,
  wp p (wm st) Q -> let '(a, st') := run fail p st in Q a (wm st').
Proof. exact (@wp_run). Qed.
Print Assumptions C02_wp_sound.


(* reads of the valid calls stop where the data says: at the terminator or at slen *)
Theorem C02_reads_sound : forall (A : Type) (fail : nat -> bool) (R : Z -> Prop) (p : prog A) m,
  reads_ok R p m -> Forall (ev_read_ok R) (rev (wtr (snd (run fail p (w0 m))))).
Proof. intros A fail R p m H. apply Forall_rev. exact (reads_ok_run fail R p (w0 m) H (Forall_nil _)). Qed.
Print Assumptions C02_reads_sound.
Theorem C02_strcpy_s : forall c d dmax s destbos m L, pre_strcpy_s c d dmax s destbos m L -> reads_ok (ext s (L + 1)) (strcpy_s c d dmax s destbos) m.
Proof. intros c d dmax s destbos m L (Hm & Hd & Hs & Hne & Hu & Hstr). exact (strcpy_s_reads c d dmax s destbos m L Hm Hd Hs Hne Hu Hstr). Qed.
Print Assumptions C02_strcpy_s.
Theorem C02_strncpy_s : forall c d dmax s slen destbos srcbos m t, pre_strncpy_s c d dmax s slen destbos srcbos m t -> reads_ok (ext s (Z.min slen (t + 1))) (strncpy_s c d dmax s slen destbos srcbos) m.
Proof. intros c d dmax s slen destbos srcbos m t (Hm & Hd & Hs & Hne & Hu & Hsl & Hsb & Hsrc). exact (strncpy_s_reads c d dmax s slen destbos srcbos m t Hm Hd Hs Hne Hu Hsl Hsb Hsrc). Qed.
Print Assumptions C02_strncpy_s.
Theorem C02_strcat_s : forall c d dmax s destbos m P L, pre_strcat_s c d dmax s destbos m P L -> (d < s -> P < s - d) -> reads_ok (fun a => ext d (P + 1) a \/ ext s (L + 1) a) (strcat_s c d dmax s destbos) m.
Proof. intros c d dmax s destbos m P L (Hm & Hd & Hs & Hne & Hu & HP & HPd & Hstr) Hg. exact (strcat_s_reads c d dmax s destbos m P L Hm Hd Hs Hne Hu HP HPd Hg Hstr). Qed.
Print Assumptions C02_strcat_s.
Theorem C02_strncat_s : forall c d dmax s slen destbos srcbos m P t, pre_strncat_s c d dmax s slen destbos srcbos m P t -> (d < s -> P < s - d) -> reads_ok (fun a => ext d (P + 1) a \/ ext s (Z.min slen (t + 1)) a) (strncat_s c d dmax s slen destbos srcbos) m.
Proof. intros c d dmax s slen destbos srcbos m P t (Hm & Hd & Hs & Hne & Hu & Hsl & Hsb & HP & HPd & Hsrc) Hg. exact (strncat_s_reads c d dmax s slen destbos srcbos m P t Hm Hd Hs Hne Hu Hsl Hsb HP HPd Hg Hsrc). Qed.
Print Assumptions C02_strncat_s.
Theorem C02_strnlen_s : forall c str smax bos, 0 <= smax -> C02_holds (ext str smax) (strnlen_s c str smax bos).
Proof. intros. apply C02_from_reads. exact (strnlen_s_prog_reads c str smax bos eq_refl H). Qed.
Print Assumptions C02_strnlen_s.
Theorem C02_strnlen_s_old_order_refuted : ~ reads_in (ext 100 2) (nlen_loop false 1 2 100 0 BOS_UNKNOWN).
Proof. exact nlen_loop_unguarded_reads_past. Qed.
Print Assumptions C02_strnlen_s_old_order_refuted.

Theorem C02_cfg_repo_wf : wf_cfg cfg_repo.
Proof. exact wf_cfg_repo. Qed.
Print Assumptions C02_cfg_repo_wf.
