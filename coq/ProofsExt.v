(* ProofsExt.v -- C01 for the models of ModExt.v: every store of every path lies inside the declared destination
   (and, for the pointer-returning copies, the 4 bytes of *errp), for all arguments, contents and both configurations. *)
From Coq Require Import List ZArith Lia Bool.
From SC Require Import Base Cfg Comb CombProofs ModMem ModExt.
Import ListNotations.
Local Open Scope Z_scope.
Local Open Scope prog_scope.

Ltac rng := let x := fresh "x" in let Hx := fresh "Hx" in intros x Hx; unfold ext in *; lia.

Lemma chk_dest_plain_writes c d dmax destbos (k : unit -> prog Z) (P : Z -> Prop) :
  (d <> 0 -> 1 <= dmax -> writes_in P (k tt)) -> 0 <= dmax -> writes_in P (chk_dest_plain c d dmax destbos k).
Proof.
  intros Hk H0. unfold chk_dest_plain.
  destruct (d =? 0) eqn:Ed; [exact I|]. destruct (dmax =? 0) eqn:Em; [exact I|].
  apply Z.eqb_neq in Ed. apply Z.eqb_neq in Em.
  destruct (destbos =? BOS_UNKNOWN); [destruct (rmax_str c <? dmax); [exact I|apply Hk; lia]|].
  destruct (destbos <? dmax); [destruct (rmax_str c <? dmax); exact I|apply Hk; lia].
Qed.
Lemma chk_dest_mem_writes rmax d dmax destbos (k : unit -> prog Z) (P : Z -> Prop) :
  (d <> 0 -> 1 <= dmax -> writes_in P (k tt)) -> 0 <= dmax -> writes_in P (chk_dest_mem rmax d dmax destbos k).
Proof.
  intros Hk H0. unfold chk_dest_mem.
  destruct (d =? 0) eqn:Ed; [exact I|]. destruct (dmax =? 0) eqn:Em; [exact I|].
  apply Z.eqb_neq in Ed. apply Z.eqb_neq in Em.
  destruct (destbos =? BOS_UNKNOWN); [destruct (rmax <? dmax); [exact I|apply Hk; lia]|].
  destruct (destbos <? dmax); [destruct (rmax <? dmax); exact I|apply Hk; lia].
Qed.

(* ---- strtolowercase_s / strtouppercase_s ---- *)
Lemma case_loop_writes lo hi delta n : forall d, writes_in (ext d (Z.of_nat n)) (case_loop lo hi delta n d).
Proof.
  induction n as [|n IH]; intros d; cbn [case_loop writes_in]; [exact I|]. intros ch.
  destruct (ch =? 0); [exact I|]. rewrite Nat2Z.inj_succ.
  destruct ((lo <=? ch) && (ch <=? hi)); cbn [writes_in].
  - split; [apply range_ext; lia|]. eapply writes_in_weaken; [|apply IH]. apply ext_sub; lia.
  - eapply writes_in_weaken; [|apply IH]. apply ext_sub; lia.
Qed.
Lemma strtolowercase_s_writes c d dmax destbos : 0 <= dmax -> writes_in (ext d dmax) (strtolowercase_s c d dmax destbos).
Proof.
  intros H0. unfold strtolowercase_s. apply chk_dest_plain_writes; [|exact H0]. intros _ H1.
  eapply writes_in_weaken; [|apply case_loop_writes]. apply ext_sub; lia.
Qed.
Lemma strtouppercase_s_writes c d dmax destbos : 0 <= dmax -> writes_in (ext d dmax) (strtouppercase_s c d dmax destbos).
Proof.
  intros H0. unfold strtouppercase_s. apply chk_dest_plain_writes; [|exact H0]. intros _ H1.
  eapply writes_in_weaken; [|apply case_loop_writes]. apply ext_sub; lia.
Qed.

(* ---- strset_s / strnset_s ---- *)
Lemma slack_if_nul_writes c rem d : writes_in (ext d (Z.max rem 0)) (slack_if_nul c rem d).
Proof.
  unfold slack_if_nul. destruct (null_slack c); [|exact I]. destruct (0 <? rem) eqn:E; [|exact I]. apply Z.ltb_lt in E.
  cbn. intros ch. destruct (ch =? 0); cbn; [|exact I]. split; [apply range_ext; lia|exact I].
Qed.
Lemma set_str_loop_writes c v (P : Z -> Prop) (k : nat -> Z -> prog Z) n : forall d,
  (forall a, ext d (Z.of_nat n) a -> P a) ->
  (forall rem d', d <= d' -> d' + Z.of_nat rem <= d + Z.of_nat n -> writes_in P (k rem d')) ->
  writes_in P (set_str_loop c v n d k).
Proof.
  induction n as [|n IH]; intros d HP Hk; cbn [set_str_loop writes_in].
  - apply Hk; lia.
  - intros ch. destruct (ch =? 0); [apply Hk; lia|]. cbn [writes_in]. rewrite Nat2Z.inj_succ in *. split.
    + intros x Hx. apply HP. unfold ext. lia.
    + apply IH; [intros a Ha; apply HP; unfold ext in *; lia|]. intros rem d' H1 H2. apply Hk; lia.
Qed.
Lemma strset_s_writes c d dmax value destbos : 0 <= dmax -> writes_in (ext d dmax) (strset_s c d dmax value destbos).
Proof.
  intros H0. unfold strset_s. apply chk_dest_plain_writes; [|exact H0]. intros _ H1.
  destruct ((value <? 0) || (255 <? value)); [exact I|].
  apply set_str_loop_writes; [apply ext_sub; lia|]. intros rem d' Ha Hb.
  eapply writes_in_weaken; [|apply slack_if_nul_writes]. rng.
Qed.
Lemma strnset_s_writes c d dmax value n destbos : 0 <= dmax -> 0 <= n -> writes_in (ext d dmax) (strnset_s c d dmax value n destbos).
Proof.
  intros H0 Hn. unfold strnset_s. apply chk_dest_plain_writes; [|exact H0]. intros _ H1.
  destruct ((value <? 0) || (255 <? value)); [exact I|].
  destruct (dmax <? n) eqn:E; [exact I|]. apply Z.ltb_ge in E.
  apply set_str_loop_writes; [apply ext_sub; lia|]. intros rem d' Ha Hb.
  eapply writes_in_weaken; [|apply slack_if_nul_writes]. rng.
Qed.

(* ---- strnterminate_s ---- *)
Lemma nterm_loop_writes n : forall d cnt, writes_in (ext d (Z.of_nat n + 1)) (nterm_loop n d cnt).
Proof.
  induction n as [|n IH]; intros d cnt; cbn [nterm_loop writes_in].
  - split; [apply range_ext; lia|exact I].
  - intros ch. rewrite Nat2Z.inj_succ. destruct (ch =? 0); cbn [writes_in].
    + split; [apply range_ext; lia|exact I].
    + eapply writes_in_weaken; [|apply IH]. apply ext_sub; lia.
Qed.
Lemma strnterminate_s_writes c d dmax destbos : 0 <= dmax -> writes_in (ext d dmax) (strnterminate_s c d dmax destbos).
Proof.
  intros H0. unfold strnterminate_s. destruct (d =? 0); [exact I|]. destruct (dmax =? 0) eqn:E; [exact I|]. apply Z.eqb_neq in E.
  assert (T : writes_in (ext d dmax) (nterm_loop (Z.to_nat (dmax - 1)) d 0)).
  { eapply writes_in_weaken; [|apply nterm_loop_writes]. apply ext_sub; lia. }
  destruct (destbos =? BOS_UNKNOWN); [destruct (rmax_str c <? dmax); [exact I|exact T]|].
  destruct (destbos <? dmax); [exact I|exact T].
Qed.

(* ---- the field copies ---- *)
Lemma fld_slack_writes d n : writes_in (ext d (Z.of_nat n)) (fld_slack d n).
Proof.
  unfold fld_slack. destruct (32 <? Z.of_nat n).
  - cbn. split; [apply range_ext; lia|exact I].
  - apply writes_in_bind; [|intros; exact I]. eapply writes_in_weaken; [|apply zero_loop_writes; lia]. apply ext_sub; lia.
Qed.
Lemma slen_nospc_clear_writes c d dmax slen : 1 <= dmax -> writes_in (ext d dmax) (slen_nospc_clear c d dmax slen).
Proof.
  intros H1. unfold slen_nospc_clear.
  eapply writes_in_bind_rets with (Q := fun r => 0 <= r <= dmax).
  - eapply writes_in_weaken; [|apply strnlen_s_prog_writes]. intros a [].
  - apply strnlen_s_prog_rets. lia.
  - intros len Hl. apply writes_in_bind; [|intros; exact I].
    unfold handle_error. apply writes_in_bind; [|intros; exact I].
    destruct (null_slack c); cbn; (split; [|exact I]); intros x Hx; unfold ext; lia.
Qed.
Section FldWrites.
  Variables (c : cfg) (fwd : bool) (od odmax bumper : Z).
  Hypothesis Hod : 1 <= odmax.
  Let P := ext od odmax.
  Lemma he_fld code : writes_in P (handle_error c 1 od odmax code ;;; Ret code).
  Proof. apply writes_in_bind; [|intros; exact I]. apply handle_error_writes; try lia. intros a; rewrite Z.mul_1_r; auto. Qed.
  Lemma fld_loop_writes sl : forall rem d s, (sl <= rem)%nat -> od <= d -> d + Z.of_nat rem <= od + odmax ->
    writes_in P (fld_loop c fwd od odmax bumper sl rem d s).
  Proof.
    induction sl as [|sl IH]; intros rem d s Hs H1 H2; cbn [fld_loop].
    - eapply writes_in_weaken; [|apply fld_slack_writes]. apply ext_sub; lia.
    - destruct (ovl fwd bumper d s); [apply he_fld|]. cbn [writes_in]. intros ch. split; [apply range_ext; lia|].
      apply IH; lia.
  Qed.
  Lemma fldin_loop_writes rem : forall d s, od <= d -> d + Z.of_nat rem <= od + odmax ->
    writes_in P (fldin_loop c fwd od odmax bumper rem d s).
  Proof.
    induction rem as [|rem IH]; intros d s H1 H2; cbn [fldin_loop].
    - eapply writes_in_weaken; [|apply fld_slack_writes]. apply ext_sub; lia.
    - cbn [writes_in]. intros ch. destruct (ch =? 0).
      + eapply writes_in_weaken; [|apply fld_slack_writes]. apply ext_sub; lia.
      + destruct (ovl fwd bumper d s); [apply he_fld|]. cbn [writes_in]. intros ch2. rewrite Nat2Z.inj_succ in H2.
        split; [apply range_ext; lia|]. apply IH; lia.
  Qed.
  Lemma fldout_loop_writes sl : forall rem d s, od <= d -> d + Z.of_nat rem <= od + odmax ->
    writes_in P (fldout_loop c fwd od odmax bumper sl rem d s).
  Proof.
    induction sl as [|sl IH]; intros rem d s H1 H2.
    - destruct rem as [|[|rem]]; cbn [fldout_loop]; (eapply writes_in_weaken; [|apply fld_slack_writes]); apply ext_sub; lia.
    - destruct rem as [|[|rem]]; cbn [fldout_loop]; try ((eapply writes_in_weaken; [|apply fld_slack_writes]); apply ext_sub; lia).
      destruct (ovl fwd bumper d s); [apply he_fld|]. cbn [writes_in]. intros ch. rewrite !Nat2Z.inj_succ in H2.
      split; [apply range_ext; lia|]. apply IH; [lia|rewrite Nat2Z.inj_succ; lia].
  Qed.
End FldWrites.
Lemma chk_fld_writes c clear d dmax s slen destbos (k : unit -> prog Z) :
  0 <= dmax -> (destbos = BOS_UNKNOWN \/ 1 <= destbos) ->
  (d <> 0 -> 1 <= dmax -> slen <= dmax -> writes_in (ext d dmax) (k tt)) ->
  writes_in (ext d dmax) (chk_fld c clear d dmax s slen destbos k).
Proof.
  intros H0 Hb Hk. unfold chk_fld. destruct (slen =? 0); [exact I|]. destruct (d =? 0) eqn:Ed; [exact I|]. destruct (dmax =? 0) eqn:Em; [exact I|].
  apply Z.eqb_neq in Ed. apply Z.eqb_neq in Em. assert (H1 : 1 <= dmax) by lia.
  assert (Rest : writes_in (ext d dmax)
      (if s =? 0 then handle_error c 1 d dmax ESNULLP;;; Ret ESNULLP else if dmax <? slen then slen_nospc_clear c d dmax slen else k tt)).
  { destruct (s =? 0).
    - apply writes_in_bind; [|intros; exact I]. apply handle_error_writes; try lia. intros a; rewrite Z.mul_1_r; auto.
    - destruct (dmax <? slen) eqn:E.
      + eapply writes_in_weaken; [|apply slen_nospc_clear_writes; lia]. auto.
      + apply Z.ltb_ge in E. eapply writes_in_weaken; [|apply Hk; auto]. auto. }
  destruct (destbos =? BOS_UNKNOWN) eqn:Eb; [destruct (rmax_str c <? dmax); [exact I|exact Rest]|].
  apply Z.eqb_neq in Eb. destruct Hb as [Hb|Hb]; [contradiction|].
  destruct (destbos <? dmax) eqn:El; [|exact Rest]. apply Z.ltb_lt in El.
  destruct clear; [|destruct (rmax_str c <? dmax); exact I].
  destruct (rmax_str c <? dmax).
  - apply writes_in_bind; [|intros; exact I]. apply handle_error_writes; try lia. intros a; rewrite Z.mul_1_r; apply ext_sub; lia.
  - apply bos_overflow_writes; try lia. apply ext_sub; lia.
Qed.
Lemma strcpyfld_s_writes c d dmax s slen destbos : 0 <= dmax -> 0 <= slen -> (destbos = BOS_UNKNOWN \/ 1 <= destbos) ->
  writes_in (ext d dmax) (strcpyfld_s c d dmax s slen destbos).
Proof.
  intros H0 Hs Hb. unfold strcpyfld_s. apply chk_fld_writes; auto. intros Hd H1 Hl.
  destruct (d <? s); apply fld_loop_writes; lia.
Qed.
Lemma strcpyfldin_s_writes c d dmax s slen destbos : 0 <= dmax -> (destbos = BOS_UNKNOWN \/ 1 <= destbos) ->
  writes_in (ext d dmax) (strcpyfldin_s c d dmax s slen destbos).
Proof.
  intros H0 Hb. unfold strcpyfldin_s. apply chk_fld_writes; auto. intros Hd H1 Hl.
  destruct (d <? s); apply fldin_loop_writes; lia.
Qed.
Lemma strcpyfldout_s_writes c d dmax s slen destbos : 0 <= dmax -> (destbos = BOS_UNKNOWN \/ 1 <= destbos) ->
  writes_in (ext d dmax) (strcpyfldout_s c d dmax s slen destbos).
Proof.
  intros H0 Hb. unfold strcpyfldout_s. apply chk_fld_writes; auto. intros Hd H1 Hl.
  destruct (d <? s); apply fldout_loop_writes; lia.
Qed.

(* ---- memccpy_s ---- *)
Lemma ccpy_loop_writes c ch od odmax : 1 <= odmax -> forall rem n d s, n <= Z.of_nat rem -> od <= d -> d + Z.of_nat rem <= od + odmax ->
  writes_in (ext od odmax) (ccpy_loop c ch od odmax rem n d s).
Proof.
  intros Hod. induction rem as [|rem IH]; intros n d s Hn H1 H2; cbn [ccpy_loop].
  - apply writes_in_bind; [|intros; exact I]. apply handle_mem_error_writes; auto.
  - rewrite Nat2Z.inj_succ in *. destruct (n =? 0); cbn [writes_in]; [split; [apply range_ext; lia|exact I]|].
    intros x. split; [apply range_ext; lia|]. destruct (x =? ch).
    + destruct (null_slack c && (1 <? n)) eqn:E; [|exact I]. apply andb_true_iff in E. destruct E as [_ E]. apply Z.ltb_lt in E.
      cbn. split; [apply range_ext; lia|exact I].
    + apply IH; lia.
Qed.
Lemma memccpy_s_writes c d dmax s ch n destbos srcbos : 0 <= dmax -> writes_in (ext d dmax) (memccpy_s c d dmax s ch n destbos srcbos).
Proof.
  intros H0. unfold memccpy_s. apply chk_dest_mem_writes; [|exact H0]. intros Hd H1.
  destruct (n =? 0); [cbn; split; [apply range_ext; lia|exact I]|].
  destruct (s =? 0); [apply writes_in_bind; [|intros; exact I]; apply handle_mem_error_writes; auto|].
  destruct (dmax <? n) eqn:E; [apply writes_in_bind; [|intros; exact I]; apply handle_mem_error_writes; auto|]. apply Z.ltb_ge in E.
  destruct (chk_ovrlp d dmax s n); [cbn; split; [apply range_ext; lia|exact I]|].
  apply ccpy_loop_writes; lia.
Qed.

(* ---- wmemcpy_s / wmemmove_s ---- *)
Lemma wmem_copy_writes c ovl rmax d dlen s count destbos srcbos : wf_cfg c -> 0 <= dlen -> 0 <= count ->
  writes_in (ext d (dlen * wchar_w c)) (wmem_copy c ovl rmax d dlen s count destbos srcbos).
Proof.
  intros Hc H0 Hn. assert (Hw : 0 < wchar_w c) by (destruct Hc as (_&_&_&_&_&_&[->| ->]&_); lia).
  unfold wmem_copy. destruct (count =? 0); [exact I|]. apply chk_dest_mem_writes; [|nia]. intros Hd H1.
  destruct (s =? 0); [apply writes_in_bind; [|intros; exact I]; apply handle_mem_error_writes; auto|].
  destruct (dlen * wchar_w c <? count * wchar_w c) eqn:E; [apply writes_in_bind; [|intros; exact I]; apply handle_mem_error_writes; auto|]. apply Z.ltb_ge in E.
  destruct (negb (srcbos =? BOS_UNKNOWN) && (srcbos <? count * wchar_w c)); [cbn; split; [apply range_ext; lia|exact I]|].
  destruct (ovl && chk_ovrlp_butsame d (dlen * wchar_w c) s (count * wchar_w c)); cbn; (split; [apply range_ext; lia|exact I]).
Qed.

(* ---- stpcpy_s / stpncpy_s: stores go to dest[0..dmax) (or the known object on the object-size exits) and to the 4 bytes of *errp ---- *)
Definition stpP (d dmax errp : Z) : Z -> Prop := fun a => ext d dmax a \/ ext errp 4 a.
Lemma stp_fail_writes (P : Z -> Prop) errp code : (forall a, ext errp 4 a -> P a) -> writes_in P (stp_fail errp code).
Proof. intros HP. cbn. split; [|exact I]. intros x Hx. apply HP. unfold ext. lia. Qed.
Lemma stp_eok_writes (P : Z -> Prop) c t errp d rem : (forall a, ext errp 4 a -> P a) -> (forall a, ext d (Z.of_nat rem) a -> P a) -> (1 <= rem)%nat ->
  writes_in P (stp_eok c t errp d rem).
Proof.
  intros HE HD Hr. unfold stp_eok. apply writes_in_bind.
  - destruct (null_slack c).
    + eapply writes_in_weaken; [|apply zero_slack_writes; lia]. intros a Ha. apply HD. rewrite Z.mul_1_r in Ha. exact Ha.
    + destruct t; [|exact I]. cbn. split; [|exact I]. intros x Hx. apply HD. unfold ext. lia.
  - intros _. cbn. split; [|exact I]. intros x Hx. apply HE. unfold ext. lia.
Qed.
Section StpWrites.
  Variables (c : cfg) (fwd : bool) (od odmax bumper errp srcbos : Z) (use_slen nt : bool) (P : Z -> Prop).
  Hypothesis Hod : 1 <= odmax.
  Hypothesis HE : forall a, ext errp 4 a -> P a.
  Hypothesis HD : forall a, ext od odmax a -> P a.
  Lemma he_stp code : writes_in P (handle_error c 1 od odmax code ;;; stp_fail errp code).
  Proof. apply writes_in_bind; [|intros; apply stp_fail_writes; exact HE]. apply handle_error_writes; try lia. intros a; rewrite Z.mul_1_r; auto. Qed.
  Lemma stp_loop_writes rem : forall d s sl, od <= d -> d + Z.of_nat rem <= od + odmax ->
    writes_in P (stp_loop c fwd od odmax bumper errp srcbos use_slen nt rem d s sl).
  Proof.
    induction rem as [|rem IH]; intros d s sl H1 H2; cbn [stp_loop]; [apply he_stp|]. rewrite Nat2Z.inj_succ in H2.
    destruct (if fwd then d =? bumper else s =? bumper); [apply he_stp|].
    destruct (use_slen && (sl =? 0)).
    { apply stp_eok_writes; [exact HE| |lia]. intros a Ha. apply HD. rewrite Nat2Z.inj_succ in Ha. unfold ext in *. lia. }
    cbn [writes_in]. intros ch. split; [intros x Hx; apply HD; unfold ext; lia|].
    destruct (ch =? 0).
    { apply stp_eok_writes; [exact HE| |lia]. intros a Ha. apply HD. rewrite Nat2Z.inj_succ in Ha. unfold ext in *. lia. }
    destruct ((if use_slen then 0 <? sl - 1 else true) && negb (srcbos =? BOS_UNKNOWN) && (srcbos <=? odmax - Z.of_nat rem)).
    - apply he_stp.
    - apply IH; lia.
  Qed.
  Lemma stp_walk_writes rem : forall d, od <= d -> d + Z.of_nat rem <= od + odmax -> writes_in P (stp_walk c od odmax errp rem d).
  Proof.
    induction rem as [|rem IH]; intros d H1 H2; cbn [stp_walk]; [apply he_stp|]. rewrite Nat2Z.inj_succ in H2.
    cbn [writes_in]. intros ch. destruct (ch =? 0).
    - apply stp_eok_writes; [exact HE| |lia]. intros a Ha. apply HD. rewrite Nat2Z.inj_succ in Ha. unfold ext in *. lia.
    - apply IH; lia.
  Qed.
End StpWrites.
Lemma stp_bos_exit_writes c d dmax errp destbos : 1 <= destbos -> destbos < dmax ->
  writes_in (stpP d dmax errp) (if rmax_str c <? dmax then handle_error c 1 d destbos ESLEMAX;;; stp_fail errp ESLEMAX else r <- bos_overflow c d destbos;; stp_fail errp r).
Proof.
  intros Hb Hn. destruct (rmax_str c <? dmax).
  - apply writes_in_bind; [|intros; apply stp_fail_writes; unfold stpP; auto]. apply handle_error_writes; try lia. intros a; rewrite Z.mul_1_r; unfold stpP; intros Ha; left; revert Ha; apply ext_sub; lia.
  - apply writes_in_bind; [|intros; apply stp_fail_writes; unfold stpP; auto]. apply bos_overflow_writes; try lia. intros a Ha; unfold stpP; left; revert Ha; apply ext_sub; lia.
Qed.
Lemma stpcpy_s_writes c d dmax s errp destbos srcbos : 0 <= dmax -> (destbos = BOS_UNKNOWN \/ 1 <= destbos) ->
  writes_in (stpP d dmax errp) (stpcpy_s c d dmax s errp destbos srcbos).
Proof.
  intros H0 Hb. unfold stpcpy_s. destruct (errp =? 0); [exact I|].
  assert (HE : forall a, ext errp 4 a -> stpP d dmax errp a) by (unfold stpP; auto).
  assert (HD : forall a, ext d dmax a -> stpP d dmax errp a) by (unfold stpP; auto).
  destruct (d =? 0); [cbn [writes_in]; apply stp_fail_writes; exact HE|].
  destruct (dmax =? 0) eqn:Em; [cbn [writes_in]; apply stp_fail_writes; exact HE|]. apply Z.eqb_neq in Em. assert (H1 : 1 <= dmax) by lia.
  assert (Body : writes_in (stpP d dmax errp)
    (if s =? 0 then handle_error c 1 d dmax ESNULLP;;; stp_fail errp ESNULLP
     else if d =? s then stp_walk c d dmax errp (Z.to_nat dmax) d
     else if d <? s then stp_loop c true d dmax s errp srcbos false false (Z.to_nat dmax) d s 0
     else stp_loop c false d dmax d errp srcbos false false (Z.to_nat dmax) d s 0)).
  { destruct (s =? 0); [apply he_stp; auto|]. destruct (d =? s); [apply stp_walk_writes; auto; lia|].
    destruct (d <? s); apply stp_loop_writes; auto; lia. }
  destruct (destbos =? BOS_UNKNOWN) eqn:Eb.
  - destruct (rmax_str c <? dmax); [cbn [writes_in]; apply stp_fail_writes; exact HE|exact Body].
  - apply Z.eqb_neq in Eb. destruct Hb as [Hb|Hb]; [contradiction|].
    destruct (destbos <? dmax) eqn:El; [apply Z.ltb_lt in El; apply stp_bos_exit_writes; auto|exact Body].
Qed.
Lemma stpncpy_s_writes c d dmax s slen errp destbos srcbos : 0 <= dmax -> (destbos = BOS_UNKNOWN \/ 1 <= destbos) ->
  (srcbos = BOS_UNKNOWN \/ slen <= srcbos) ->
  writes_in (stpP d dmax errp) (stpncpy_s c d dmax s slen errp destbos srcbos).
Proof.
  intros H0 Hb Hsb. unfold stpncpy_s. destruct (errp =? 0); [exact I|].
  assert (HE : forall a, ext errp 4 a -> stpP d dmax errp a) by (unfold stpP; auto).
  assert (HD : forall a, ext d dmax a -> stpP d dmax errp a) by (unfold stpP; auto).
  destruct (d =? 0); [cbn [writes_in]; apply stp_fail_writes; exact HE|].
  destruct (dmax =? 0) eqn:Em; [cbn [writes_in]; apply stp_fail_writes; exact HE|]. apply Z.eqb_neq in Em. assert (H1 : 1 <= dmax) by lia.
  assert (Hsrc : negb (srcbos =? BOS_UNKNOWN) && (srcbos <? slen) = false).
  { destruct Hsb as [->|Hs]; [reflexivity|]. replace (srcbos <? slen) with false by (symmetry; apply Z.ltb_ge; lia). apply andb_false_r. }
  assert (Body : writes_in (stpP d dmax errp)
    (if s =? 0 then handle_error c 1 d dmax ESNULLP;;; stp_fail errp ESNULLP
     else if rmax_str c <? slen then (len <- strnlen_s_prog c d dmax BOS_UNKNOWN;; handle_error c 1 d len ESLEMAX;;; stp_fail errp ESLEMAX)
     else if negb (srcbos =? BOS_UNKNOWN) && (srcbos <? slen) then (r <- bos_overflow c d (if destbos =? BOS_UNKNOWN then dmax else destbos);; stp_fail errp r)
     else if d =? s then stp_walk c d dmax errp (Z.to_nat dmax) d
     else if d <? s then stp_loop c true d dmax s errp srcbos true true (Z.to_nat dmax) d s slen
     else stp_loop c false d dmax d errp srcbos true true (Z.to_nat dmax) d s slen)).
  { destruct (s =? 0); [apply he_stp; auto|].
    destruct (rmax_str c <? slen).
    { eapply writes_in_bind_rets with (Q := fun r => 0 <= r <= dmax).
      - eapply writes_in_weaken; [|apply strnlen_s_prog_writes]. intros a [].
      - apply strnlen_s_prog_rets. lia.
      - intros len Hl. apply writes_in_bind; [|intros; apply stp_fail_writes; exact HE].
        unfold handle_error. apply writes_in_bind; [|intros; exact I].
        destruct (null_slack c); cbn; (split; [|exact I]); intros x Hx; apply HD; unfold ext; lia. }
    rewrite Hsrc. destruct (d =? s); [apply stp_walk_writes; auto; lia|].
    destruct (d <? s); apply stp_loop_writes; auto; lia. }
  destruct (destbos =? BOS_UNKNOWN) eqn:Eb.
  - destruct (rmax_str c <? dmax); [cbn [writes_in]; apply stp_fail_writes; exact HE|exact Body].
  - apply Z.eqb_neq in Eb. destruct Hb as [Hb|Hb]; [contradiction|].
    destruct (destbos <? dmax) eqn:El; [apply Z.ltb_lt in El; apply stp_bos_exit_writes; auto|exact Body].
Qed.
