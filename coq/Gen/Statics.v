(* GENERATED on every run by harness/vlib.py (translator "statics"): nm -S on the objects compiled
   from the working tree; every symbol in a writable section. *)
From Coq Require Import List String ZArith Bool.
Import ListNotations.
Local Open Scope string_scope.
Definition inventory : list (string * string * Z * string) := [
  ("extwchar_wcsnorm_s", "UNWIF_canon", 136%Z, "d");
  ("extwchar_wcsnorm_s", "UNWIF_canon_00", 2048%Z, "d");
  ("extwchar_wcsnorm_s", "UNWIF_canon_01", 2048%Z, "d");
  ("extwchar_wcsnorm_s", "UNWIF_canon_02", 2048%Z, "d");
  ("extwchar_wcsnorm_s", "UNWIF_canon_tbl", 32%Z, "d");
  ("extwchar_wcsnorm_s", "UNWIF_combin", 136%Z, "d");
  ("extwchar_wcsnorm_s", "UNWIF_combin_00", 2048%Z, "d");
  ("extwchar_wcsnorm_s", "UNWIF_combin_01", 2048%Z, "d");
  ("extwchar_wcsnorm_s", "UNWIF_compos", 136%Z, "d");
  ("extwchar_wcsnorm_s", "UNWIF_compos_00", 2048%Z, "d");
  ("extwchar_wcsnorm_s", "UNWIF_compos_00_00", 2048%Z, "d");
  ("extwchar_wcsnorm_s", "UNWIF_compos_00_01", 2048%Z, "d");
  ("extwchar_wcsnorm_s", "UNWIF_compos_00_02", 2048%Z, "d");
  ("extwchar_wcsnorm_s", "UNWIF_compos_00_03", 2048%Z, "d");
  ("extwchar_wcsnorm_s", "UNWIF_compos_00_04", 2048%Z, "d");
  ("extwchar_wcsnorm_s", "UNWIF_compos_00_05", 2048%Z, "d");
  ("extwchar_wcsnorm_s", "UNWIF_compos_00_06", 2048%Z, "d");
  ("extwchar_wcsnorm_s", "UNWIF_compos_00_09", 2048%Z, "d");
  ("extwchar_wcsnorm_s", "UNWIF_compos_00_0a", 2048%Z, "d");
  ("extwchar_wcsnorm_s", "UNWIF_compos_00_0b", 2048%Z, "d");
  ("extwchar_wcsnorm_s", "UNWIF_compos_00_0c", 2048%Z, "d");
  ("extwchar_wcsnorm_s", "UNWIF_compos_00_0d", 2048%Z, "d");
  ("extwchar_wcsnorm_s", "UNWIF_compos_00_0f", 2048%Z, "d");
  ("extwchar_wcsnorm_s", "UNWIF_compos_00_10", 2048%Z, "d");
  ("extwchar_wcsnorm_s", "UNWIF_compos_00_1b", 2048%Z, "d");
  ("extwchar_wcsnorm_s", "UNWIF_compos_00_1e", 2048%Z, "d");
  ("extwchar_wcsnorm_s", "UNWIF_compos_00_1f", 2048%Z, "d");
  ("extwchar_wcsnorm_s", "UNWIF_compos_00_21", 2048%Z, "d");
  ("extwchar_wcsnorm_s", "UNWIF_compos_00_22", 2048%Z, "d");
  ("extwchar_wcsnorm_s", "UNWIF_compos_00_2a", 2048%Z, "d");
  ("extwchar_wcsnorm_s", "UNWIF_compos_00_30", 2048%Z, "d");
  ("extwchar_wcsnorm_s", "UNWIF_compos_00_fb", 2048%Z, "d");
  ("extwchar_wcsnorm_s", "UNWIF_compos_01", 2048%Z, "d");
  ("extwchar_wcsnorm_s", "UNWIF_compos_01_10", 2048%Z, "d");
  ("extwchar_wcsnorm_s", "UNWIF_compos_01_11", 2048%Z, "d");
  ("extwchar_wcsnorm_s", "UNWIF_compos_01_13", 2048%Z, "d");
  ("extwchar_wcsnorm_s", "UNWIF_compos_01_14", 2048%Z, "d");
  ("extwchar_wcsnorm_s", "UNWIF_compos_01_15", 2048%Z, "d");
  ("extwchar_wcsnorm_s", "UNWIF_compos_01_19", 2048%Z, "d");
  ("extwchar_wcsnorm_s", "UNWIF_compos_01_d1", 2048%Z, "d");
  ("io_tmpfile_s", "count.0", 4%Z, "b");
  ("mem_safe_mem_constraint", "mem_handler", 8%Z, "b");
  ("mem_safe_mem_constraint", "thrd_mem_handler", 8%Z, "b");
  ("str_safe_str_constraint", "str_handler", 8%Z, "b");
  ("str_safe_str_constraint", "thrd_str_handler", 8%Z, "b");
  ("str_strerror_s", "errmsgs_s", 88%Z, "d")
].
Definition known_finding_statics : list (string * string) := [("io_tmpfile_s", "count.0")].
