(* GENERATED on every run by harness/vlib.py (translator "consts") from /repo/include. *)
From Coq Require Import List ZArith Lia.
From SC Require Import Base Cfg.
Import ListNotations.
Local Open Scope Z_scope.
Definition cfg_repo : cfg := mkCfg true 4096 268435456 1024 134217728 67108864 16 4.
Definition errcodes_repo : list Z := [0; 400; 401; 402; 403; 404; 405; 406; 407; 408; 409; 410; 75; 22; 34; 84].
Theorem wf_cfg_repo : wf_cfg cfg_repo.
Proof. unfold wf_cfg, cfg_repo; cbn. lia. Qed.
Theorem errcodes_agree : errcodes_repo = errcodes_model.
Proof. reflexivity. Qed.
