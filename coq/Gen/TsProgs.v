(* GENERATED on every run by harness/ctast_tr.py from the clang AST of the working tree. *)
From Coq Require Import List ZArith.
From SC Require Import ConstTime.
Import ListNotations.
Local Open Scope Z_scope.
(* variables: 0=b1, 1=b2, 2=n, 3=destbos, 4=srcbos, 5=p1, 6=p2, 7=ret *)
Definition timingsafe_bcmp_chk_body : cstmt := CSeq (CSeq (CAssign 5 (CVar 0)) (CAssign 6 (CVar 1))) (CSeq (CAssign 7 (CConst 0)) (CWhile (CBin OLt (CConst 0) (CVar 2)) (CSeq (CSeq (CAssign 7 (CBin OOr (CVar 7) (CBin OXor (CLoad (CVar 5)) (CLoad (CVar 6))))) (CSeq (CAssign 5 (CBin OAdd (CVar 5) (CConst 1))) (CAssign 6 (CBin OAdd (CVar 6) (CConst 1))))) (CAssign 2 (CBin OSub (CVar 2) (CConst 1)))))).
Definition timingsafe_bcmp_chk_ret : cexpr := CBin ONe (CVar 7) (CConst 0).
Definition timingsafe_bcmp_chk_nvars : nat := 8%nat.
(* variables: 0=b1, 1=b2, 2=len, 3=destbos, 4=srcbos, 5=p1, 6=p2, 7=i, 8=res, 9=done, 10=lt, 11=gt, 12=cmp *)
Definition timingsafe_memcmp_chk_body : cstmt := CSeq (CSeq (CAssign 5 (CVar 0)) (CAssign 6 (CVar 1))) (CSeq (CSeq (CAssign 8 (CConst 0)) (CAssign 9 (CConst 0))) (CSeq (CAssign 7 (CConst 0)) (CWhile (CBin OLt (CVar 7) (CVar 2)) (CSeq (CSeq (CAssign 10 (CBin OShr (CBin OSub (CLoad (CBin OAdd (CVar 5) (CVar 7))) (CLoad (CBin OAdd (CVar 6) (CVar 7)))) (CConst 8))) (CSeq (CAssign 11 (CBin OShr (CBin OSub (CLoad (CBin OAdd (CVar 6) (CVar 7))) (CLoad (CBin OAdd (CVar 5) (CVar 7)))) (CConst 8))) (CSeq (CAssign 12 (CBin OSub (CVar 10) (CVar 11))) (CSeq (CAssign 8 (CBin OOr (CVar 8) (CBin OAnd (CVar 12) (CNot (CVar 9))))) (CAssign 9 (CBin OOr (CVar 9) (CBin OOr (CVar 10) (CVar 11)))))))) (CAssign 7 (CBin OAdd (CVar 7) (CConst 1))))))).
Definition timingsafe_memcmp_chk_ret : cexpr := CVar 8.
Definition timingsafe_memcmp_chk_nvars : nat := 13%nat.
Definition translation_complete : bool := true.
