(* GENERATED on every run by harness/eraseshape_tr.py from the preprocessed working tree. *)
From Coq Require Import List String.
From SC Require Import EraseShape.
Import ListNotations.
Local Open Scope string_scope.
Definition prim_shapes : list (list act) := [[AStoreV]; [AStoreV; ABarrier]; [AStoreV; ABarrier]].
Definition entry_shapes : list (string * list act) := [("memset_s", [ACall 0; ABarrier]); ("memzero_s", [AExplicit; ABarrier]); ("memzero16_s", [ACall 1; ABarrier]); ("memzero32_s", [ACall 2; ABarrier]); ("memset16_s", [ACall 1; ABarrier]); ("memset32_s", [ACall 2; ABarrier]); ("strzero_s", [AStoreP])].
