(* GENERATED on every run by harness/prescan_tr.py from the working tree: which %n pre-scan idiom each
   formatted I/O entry point uses and which formatter receives the format afterwards. *)
From Coq Require Import List String Bool.
Import ListNotations.
Local Open Scope string_scope.
(* name, idiom, formatter, wide, scanf *)
Definition entries : list (string * string * string * bool * bool) := [
  ("sprintf_s", "none", "entry:vsnprintf_s", false, false);
  ("vsprintf_s", "none", "entry:vsnprintf_s", false, false);
  ("snprintf_s", "none", "entry:vsnprintf_s", false, false);
  ("vsnprintf_s", "standard", "engine", false, false);
  ("printf_s", "standard", "engine", false, false);
  ("fprintf_s", "standard", "engine", false, false);
  ("vprintf_s", "standard", "libc", false, false);
  ("vfprintf_s", "standard", "engine", false, false);
  ("swprintf_s", "standard", "libc", true, false);
  ("vswprintf_s", "standard", "libc", true, false);
  ("snwprintf_s", "standard", "libc", true, false);
  ("vsnwprintf_s", "standard", "libc", true, false);
  ("wprintf_s", "standard", "libc", true, false);
  ("vwprintf_s", "standard", "libc", true, false);
  ("fwprintf_s", "standard", "libc", true, false);
  ("vfwprintf_s", "standard", "libc", true, false);
  ("sscanf_s", "standard", "libc", false, true);
  ("vsscanf_s", "standard", "libc", false, true);
  ("fscanf_s", "standard", "libc", false, true);
  ("vfscanf_s", "standard", "libc", false, true);
  ("scanf_s", "standard", "libc", false, true);
  ("vscanf_s", "standard", "libc", false, true);
  ("swscanf_s", "standard", "libc", true, true);
  ("vswscanf_s", "standard", "libc", true, true);
  ("fwscanf_s", "standard", "libc", true, true);
  ("vfwscanf_s", "standard", "libc", true, true);
  ("wscanf_s", "standard", "libc", true, true);
  ("vwscanf_s", "standard", "libc", true, true)
].
Definition engine_n_case_reports_and_returns : bool := true.
